#!/usr/bin/env python3
"""Driver for the klevdb verification harness (see DESIGN.md).

  python3 verif.py setup
  python3 verif.py check <ID> [--tier quick|thorough] [--seed N]
  python3 verif.py replay <ID> <path>
  python3 verif.py all [--tier quick|thorough]

Exit codes of `check`: 0 property held on everything explored (KNOWN-FINDING lines allowed),
1 violation (prints `VIOLATION property=<id> replay=<path>`), 2 inconclusive (build failure, shard
death, deadline, fewer cases than requested, hook self-check failed).
"""
import json, os, re, shutil, subprocess, sys, time, signal

ROOT = os.path.dirname(os.path.abspath(__file__))
HARNESS = os.path.join(ROOT, "harness")
GO = "go1.26.8"
NCPU = os.cpu_count() or 4

ENV = dict(os.environ)
ENV.update({"GOFLAGS": "-mod=mod", "GOPROXY": "off", "GOSUMDB": "off", "GOTOOLCHAIN": "local",
            "VF_ROOT": ROOT})


def splitmix(seed, i):
    z = (seed + (i + 1) * 0x9E3779B97F4A7C15) & 0xFFFFFFFFFFFFFFFF
    z = ((z ^ (z >> 30)) * 0xBF58476D1CE4E5B9) & 0xFFFFFFFFFFFFFFFF
    z = ((z ^ (z >> 27)) * 0x94D049BB133111EB) & 0xFFFFFFFFFFFFFFFF
    z = z ^ (z >> 31)
    z &= 0x7FFFFFFFFFFFFFFF
    return z or 1


# job: test function, kind ("rapid" | "plain"), per-tier (shards, cases per shard), steps, race
def J(test, quick, thorough, steps=40, race=False, kind="rapid", env=None, timeout=(900, 5400)):
    return dict(test=test, quick=quick, thorough=thorough, steps=steps, race=race, kind=kind, env=env or {}, timeout=timeout)


CHECKS = {
    "C01": dict(level="exploration", jobs=[J("TestC01", (4, 1500), (16, 12000), steps=45)],
                rule="one case = one generated API history (publish/delete/trim/compact/GC/sync/reopen with re-drawn options, index removal, migrate, package-level tools) executed against a real log and the reference model with a full scan from OffsetOldest after every step; non-trivial = the history reached >=2 segments AND contains a delete or a reopen; distinct = hash of the concrete operation trace. Dimensions drawn per case or step in every history job: index configuration; rollover size (incl. exactly the head's size, +-1); NewSegmentsVersion/KeepRewriteVersion/EagerVersionMigrate/Check/Recover/AutoSync re-drawn at every open; index files removed and segment files replaced by symbolic links while closed; directory name (glob/shell characters) and spelling; message times monotone / arbitrary / zero (stamped by the log) / far future / with nanoseconds and a zone / before 1970; keys incl. nil, empty, hash collisions and keys of 300, 5000 and 70000 bytes; values up to 70 KB; a rejected (too big) message at a drawn position of a batch; offsets and bounds up to MaxInt64; nil map/slice; Multi calls with the library's back-off or one that fails / cancels; the invariant after every step or only every n-th (lazy state); read-only sessions incl. GC; a missing key/value is handed out the same way (nil or empty) every time"),
    "C02": dict(level="exploration", jobs=[J("TestC02", (4, 1500), (16, 12000), steps=45)],
                rule="one case = one generated history biased to delete-newest/delete-all/empty batch/reopen; after every Publish the returned offset, the written-back offsets, and after every step NextOffset/Sync are compared with the model counter (which never decreases, so reuse is a mismatch); non-trivial = history contains (tail-or-all delete) -> reopen -> publish; distinct by trace hash. Dimensions drawn per case or step in every history job: index configuration; rollover size (incl. exactly the head's size, +-1); NewSegmentsVersion/KeepRewriteVersion/EagerVersionMigrate/Check/Recover/AutoSync re-drawn at every open; index files removed and segment files replaced by symbolic links while closed; directory name (glob/shell characters) and spelling; message times monotone / arbitrary / zero (stamped by the log) / far future / with nanoseconds and a zone / before 1970; keys incl. nil, empty, hash collisions and keys of 300, 5000 and 70000 bytes; values up to 70 KB; a rejected (too big) message at a drawn position of a batch; offsets and bounds up to MaxInt64; nil map/slice; Multi calls with the library's back-off or one that fails / cancels; the invariant after every step or only every n-th (lazy state); read-only sessions incl. GC; a missing key/value is handed out the same way (nil or empty) every time"),
    "C03": dict(level="exploration", jobs=[J("TestC03", (4, 1000), (16, 8000), steps=40)],
                rule="one case = one history; after every step Consume is called at every offset in [-5, NextOffset+2] with maxCount cycling through {1,2,3,5,8,40} and checked with a validity predicate over the model, plus the feed-back iteration from OffsetOldest, plus lone probe operations (one Consume at one pre-drawn offset between two other operations, same predicate); non-trivial = a sweep happened on a state with >=2 segments and at least one queried offset inside a hole; distinct by trace hash. Dimensions drawn per case or step in every history job: index configuration; rollover size (incl. exactly the head's size, +-1); NewSegmentsVersion/KeepRewriteVersion/EagerVersionMigrate/Check/Recover/AutoSync re-drawn at every open; index files removed and segment files replaced by symbolic links while closed; directory name (glob/shell characters) and spelling; message times monotone / arbitrary / zero (stamped by the log) / far future / with nanoseconds and a zone / before 1970; keys incl. nil, empty, hash collisions and keys of 300, 5000 and 70000 bytes; values up to 70 KB; a rejected (too big) message at a drawn position of a batch; offsets and bounds up to MaxInt64; nil map/slice; Multi calls with the library's back-off or one that fails / cancels; the invariant after every step or only every n-th (lazy state); read-only sessions incl. GC; a missing key/value is handed out the same way (nil or empty) every time"),
    "C04": dict(level="exploration", jobs=[J("TestC04", (4, 1000), (16, 8000), steps=40)],
                rule="one case = one history; after every step Get at every offset in [0, NextOffset+2] and both relative offsets, classified live/deleted/unassigned by the model, and compared with Consume(offset,1), plus lone probe operations (one Get at one pre-drawn offset between two other operations); non-trivial = a deleted offset was queried on a state with >=2 segments; distinct by trace hash. Dimensions drawn per case or step in every history job: index configuration; rollover size (incl. exactly the head's size, +-1); NewSegmentsVersion/KeepRewriteVersion/EagerVersionMigrate/Check/Recover/AutoSync re-drawn at every open; index files removed and segment files replaced by symbolic links while closed; directory name (glob/shell characters) and spelling; message times monotone / arbitrary / zero (stamped by the log) / far future / with nanoseconds and a zone / before 1970; keys incl. nil, empty, hash collisions and keys of 300, 5000 and 70000 bytes; values up to 70 KB; a rejected (too big) message at a drawn position of a batch; offsets and bounds up to MaxInt64; nil map/slice; Multi calls with the library's back-off or one that fails / cancels; the invariant after every step or only every n-th (lazy state); read-only sessions incl. GC; a missing key/value is handed out the same way (nil or empty) every time"),
    "C08": dict(level="exploration", jobs=[J("TestC08Windows", (4, 1200), (16, 15000), timeout=(900, 5400)), J("TestC08Stress", (4, 3), (16, 10), race=True, kind="plain", timeout=(900, 5400)),
                                                 J("TestC08Windows", (4, 300), (16, 4000), race=True, env={"VF_TIMED": "1"}, timeout=(900, 5400)),
                                                 J("TestC08Duets", (4, 0), (12, 0), race=True, kind="plain", timeout=(900, 5400)),
                                                 J("TestC08BigAppends", (4, 0), (8, 0), kind="plain", timeout=(600, 1800)),
                                                 J("TestC08TailRace", (4, 0), (8, 0), kind="plain", timeout=(600, 1800)),
                                                 J("TestC08Helpers", (4, 1500), (16, 20000), timeout=(900, 5400))],
                rule="windows job: one evaluation = one owned schedule: a generated sequential prefix (publish/delete/GC on a small-rollover log), then call A (Publish with/without rollover, Delete on head/reader segment, a read, GC) held at the k-th occurrence of one of 11 pause points while up to two further complete calls (any of Publish, Consume, ConsumeByKey, Get, GetByKey, GetByTime, Delete, NextOffset, Sync, GC, Stat) are issued, then A is released; oracle = brute-force linearization of the <=3 calls (some order consistent with real time replays on the reference model with every observed result admissible, no error the sequential contract does not allow); non-trivial = the armed point was actually reached; distinct by (point, call kinds, occurrence, case hash). stress job (built with -race): one evaluation = one API call inside a seeded free-running mix (1-3 publishers, 1-2 deleters aimed at the head, 1-3 cursor readers doing all read calls, GC/Stat/Sync) with timed sleeps at the pause points; oracle = Go race detector + history invariants (disjoint dense offset ranges, content never changes, nothing disappears or is stepped over unless a Delete reported it, no call fails because of concurrent activity, final content == published minus reported deleted); non-trivial round = at least one rollover and one delete of the newest message. Half of the window cases are focused templates (delete in the writing segment while a publish rolls it over, publish vs delete/GC/Stat/Sync, GC vs reads and deletes in the unloaded segment). A duets job (-race) runs 12 pairs of call kinds x KeepRewriteVersion on/off with only two goroutines, because in the full mix the detector's 4-entry access history of a hot address is usually overwritten by properly locked readers before the racy access happens. The windows job also runs on the -race binary in timed mode (A is held by a sleep instead of a channel, so the detector sees the other calls as concurrent with the rest of A). Further window features: A may be held at a file-system step, a deadlock is reported when all unreturned calls are parked in a mutex wait in one stop-the-world goroutine snapshot (never on elapsed time), one or two sequential calls may follow the window before the observation, cases with Rollover equal to the head's size. Duets job (-race): two goroutines, 14 pairs of call kinds. BigAppends job (plain binary): records of 3000-70000 bytes appended against Delete/Consume/lookups of the head. TailRace job (plain binary, full speed, no deletes): Get/Consume/GetByKey/NextOffset at the offset that is being assigned and Consume(OffsetOldest) on a fresh or just-emptied log against a publisher, 800 (thorough 8000) fresh logs per shard; every read has exactly two admissible answers. Helpers job: one Multi helper (CompactUpdatesMulti, CompactDeletesMulti, Compact, TrimByOffsetMulti, TrimByAgeMulti, DeleteMultiOffsets) held at the k-th occurrence of a pause point of the Delete it is in, a Publish of fresh keys inside; afterwards nothing but messages of the state before is gone, none altered, the helper reported exactly what disappeared, every concurrently published message is live, and (compactions) the latest value of every key is what it was",
                level_note="interleavings reachable through the listed pause points plus what the seeded stress happens to hit; the race detector only reports races that execute; free-running runs are not reproducible by construction (their replay file is the recorded history / race report)"),
    "C09": dict(level="exploration", jobs=[J("TestC09", (4, 500), (16, 5000), steps=40)],
                rule="one case = one history over a key universe with nil, empty, prefix-related keys and three real FNV-1a-64 collision pairs; after every step GetByKey/OffsetByKey/ConsumeByKey (iteration and every cursor offset) for every key incl. absent ones; non-trivial = a lookup ran while a different key with the same hash was live; distinct by trace hash. Dimensions drawn per case or step in every history job: index configuration; rollover size (incl. exactly the head's size, +-1); NewSegmentsVersion/KeepRewriteVersion/EagerVersionMigrate/Check/Recover/AutoSync re-drawn at every open; index files removed and segment files replaced by symbolic links while closed; directory name (glob/shell characters) and spelling; message times monotone / arbitrary / zero (stamped by the log) / far future / with nanoseconds and a zone / before 1970; keys incl. nil, empty, hash collisions and keys of 300, 5000 and 70000 bytes; values up to 70 KB; a rejected (too big) message at a drawn position of a batch; offsets and bounds up to MaxInt64; nil map/slice; Multi calls with the library's back-off or one that fails / cancels; the invariant after every step or only every n-th (lazy state); read-only sessions incl. GC; a missing key/value is handed out the same way (nil or empty) every time"),
    "C10": dict(level="exploration", jobs=[J("TestC10", (4, 1200), (16, 10000), steps=40)],
                rule="one case = one history with non-decreasing times and equal-timestamp runs, rollover re-drawn at every open; after every step GetByTime/OffsetByTime at every microsecond from min-1 to max+1; non-trivial = time-indexed log where an answered run of equal timestamps existed on a multi-segment state, or the head segment was emptied by a tail delete; distinct by trace hash. Dimensions drawn per case or step in every history job: index configuration; rollover size (incl. exactly the head's size, +-1); NewSegmentsVersion/KeepRewriteVersion/EagerVersionMigrate/Check/Recover/AutoSync re-drawn at every open; index files removed and segment files replaced by symbolic links while closed; directory name (glob/shell characters) and spelling; message times monotone / arbitrary / zero (stamped by the log) / far future / with nanoseconds and a zone / before 1970; keys incl. nil, empty, hash collisions and keys of 300, 5000 and 70000 bytes; values up to 70 KB; a rejected (too big) message at a drawn position of a batch; offsets and bounds up to MaxInt64; nil map/slice; Multi calls with the library's back-off or one that fails / cancels; the invariant after every step or only every n-th (lazy state); read-only sessions incl. GC; a missing key/value is handed out the same way (nil or empty) every time"),
    "C11": dict(level="exploration", jobs=[J("TestC11", (4, 350), (16, 3000), steps=35)],
                rule="one case = one history; at every close every index file is compared with the index derived from its log by the independent parser, and the directory is copied and reopened (RW and RO alternating) with all / each single (thorough: random subsets of) index files removed and fully observed against the model; non-trivial = an index of a non-head segment was removed, or a multi-segment log with deletes/migration was closed and reopened; distinct by trace hash. Dimensions drawn per case or step in every history job: index configuration; rollover size (incl. exactly the head's size, +-1); NewSegmentsVersion/KeepRewriteVersion/EagerVersionMigrate/Check/Recover/AutoSync re-drawn at every open; index files removed and segment files replaced by symbolic links while closed; directory name (glob/shell characters) and spelling; message times monotone / arbitrary / zero (stamped by the log) / far future / with nanoseconds and a zone / before 1970; keys incl. nil, empty, hash collisions and keys of 300, 5000 and 70000 bytes; values up to 70 KB; a rejected (too big) message at a drawn position of a batch; offsets and bounds up to MaxInt64; nil map/slice; Multi calls with the library's back-off or one that fails / cancels; the invariant after every step or only every n-th (lazy state); read-only sessions incl. GC; a missing key/value is handed out the same way (nil or empty) every time. Also at every close: index timestamps are a running maximum of the message times in the file from one carried value >= 0 (any times)"),
    "C12": dict(level="exploration", jobs=[J("TestC12", (4, 1200), (16, 10000), steps=45)],
                rule="one case = one history biased to deletes of every shape; every delete is checked: returned subset of requested and live, byte-equal content, exact size from the segment file version, relative/empty/repeat rules, then the full scan equals the pre-state minus the returned messages; non-trivial = >=2 different structural delete outcomes (segment role x same-base/rebased/emptied/tail) or one outcome plus a reopen; distinct by trace hash. Dimensions drawn per case or step in every history job: index configuration; rollover size (incl. exactly the head's size, +-1); NewSegmentsVersion/KeepRewriteVersion/EagerVersionMigrate/Check/Recover/AutoSync re-drawn at every open; index files removed and segment files replaced by symbolic links while closed; directory name (glob/shell characters) and spelling; message times monotone / arbitrary / zero (stamped by the log) / far future / with nanoseconds and a zone / before 1970; keys incl. nil, empty, hash collisions and keys of 300, 5000 and 70000 bytes; values up to 70 KB; a rejected (too big) message at a drawn position of a batch; offsets and bounds up to MaxInt64; nil map/slice; Multi calls with the library's back-off or one that fails / cancels; the invariant after every step or only every n-th (lazy state); read-only sessions incl. GC; a missing key/value is handed out the same way (nil or empty) every time"),
    "C05": dict(level="fault_enumeration", jobs=[J("TestC05", (8, 40), (16, 350), timeout=(1200, 7200))],
                rule="one evaluation = one crash image checked: a generated workload (publish batches with frequent rollover, single Delete in reader/head segments incl. rebasing/emptying/tail, reopen plain/Recover/EagerVersionMigrate/index files removed + lazy rebuild, package Migrate/Recover, Sync, GC) runs to completion under the FS tap, which snapshots the directory after EVERY file-system step; each snapshot is an image, each record/index-item append additionally yields torn variants (quick: 10 cut points, thorough: every byte), and the recovery of every n-th image / torn cut is itself run under the tap for depth-2 images; oracle = Open(Recover) succeeds, scan is one of the admissible logs computed from the uncrashed run, all views agree, NextOffset not backwards, second Recover byte-identical, appendable, Check passes; non-trivial = image directory differs from both the pre- and post-operation directory; distinct by (kind, op, delete outcome, FS site, normalised listing). Every 5th image is also recovered with Recover + the other NewSegmentsVersion + EagerVersionMigrate; every 4th image and every image of a crashed Delete is used further after recovery (one Delete per segment, Check, segment files re-read with the reference parser)",
                level_note="granularity is the FS step plus torn appends; 8-byte file headers atomic (no file of length 1..7), as the property states; no reordering inside the kernel; relies on the verif-tag FS tap being complete (self-checked on every run: an unexplained directory change makes the run inconclusive)"),
    "C06": dict(level="fault_enumeration", jobs=[J("TestC06", (8, 150), (16, 2000), timeout=(1200, 7200)), J("TestC06Concurrent", (6, 3), (12, 8), kind="plain")],
                rule="one evaluation = one power-loss image checked: same workloads as C05 plus Sync operations and AutoSync configurations; the tap tracks per file (followed across renames) the length at its last fsync; at every FS step images are synthesised under the stated tail-loss model: every file independently cut to a length in [fsynced, current] (all-min, each-file-min/others-max and vice versa, random vectors incl. record boundaries +-1, never a length in 1..7), directory entries as in the current directory; oracle = Open(Recover) succeeds, the scan is a prefix of an admissible log containing every live message below the acknowledged offset w (latest Sync return / AutoSync Publish return / Close), NextOffset >= w, views agree, appendable, Check passes; non-trivial = at least one file strictly shorter than current and w > 0; distinct by (op, FS site, w, listing). A second job runs 2-4 free-running publishers against a Sync loop (the writer mutex is pushed into starvation mode by holding it >1 ms at a pause point): every time Sync returns w, the durable prefixes of all files as of that moment (fsynced lengths from the tap; the files are append-only in this mix) are recovered and must hold every offset below w",
                level_note="a simulation of the storage model the property states (per-file tail loss, directory operations durable in program order), not a disk; soundness depends on complete FS taps (self-checked; a gap makes the run inconclusive)"),
    "C07": dict(level="fault_enumeration", jobs=[J("TestC07", (4, 25), (16, 60)), J("FuzzRecoverBytes", (0, 0), (1, 60), kind="fuzz")],
                rule="one evaluation = one damaged head segment: a segment of 1..6 generated messages (four index configurations, V2; V1 for truncation only) written by the repository's writers, then EVERY truncation length (0, >=8), every byte position after the header (quick: one bit + 0x00 + 0xFF; thorough: all 8 bits), zero/0xFF/pattern tails of every length up to two records, and every index damage (missing, every truncation, every byte, extra items, other layout/container); oracle = independent reference parser (longest valid prefix, derived index); non-trivial = valid prefix is proper and non-empty, or only the index is damaged; distinct by (segment hash, damage). Every 6th (thorough: 2nd) log damage is also tried with the index missing and with an index without items; damage that recomputes the checksum of the record it hits (forged trailer / forged value)",
                exhaustive_note="per generated segment the enumerated damage space is complete (thorough) / complete for truncations and index damage, sampled bits for byte corruption (quick)"),
    "C13": dict(level="exploration", jobs=[J("TestC13Codec", (4, 15000), (16, 150000)), J("TestC13Hist", (2, 800), (8, 6000), steps=40), J("FuzzParseDifferential", (0, 0), (1, 60), kind="fuzz"), J("TestC13Boundary", (1, 0), (1, 0), kind="plain"), J("TestC13IndexSizes", (1, 0), (1, 0), kind="plain")],
                rule="codec job: one case = up to 5 generated messages (key/value 0..300 B plus 4 KiB/70 KiB, times over the whole int64 microsecond range, offsets up to MaxInt64) x V1/V2 x file/mmap reader x four index layouts x both index containers: writer bytes == independent encoder for log and index, reported positions, Size, readers on independently encoded files, parser agreement on a damaged copy; history job: Stat and Log.Size against os.Stat after every step; non-trivial codec case = >=2 records or an empty key/value or a boundary time; history case = multi-segment with deletes; distinct by case hash. History job also checks at every close that index timestamps are a running maximum of the message times in the file from one carried value (any times). Boundary job: fixed enumeration of the largest accepted message sizes (64 MiB and neighbours) through both readers and through Publish/Consume/reopen with Recover/Check. Index-size job: fixed enumeration of index files of 4 KiB, 64 KiB, 256 KiB (thorough: 1 MiB) +- a few items in all four layouts and both containers read back item for item, and a segment of 11000 messages reopened with and without its index file. Codec damage includes changes that recompute the record checksum; the fuzz target compares each input also with all frame checksums recomputed"),
    "C14": dict(level="fault_enumeration", jobs=[J("TestC14", (4, 40), (16, 20)), J("FuzzDamageRead", (0, 0), (1, 90), kind="fuzz")],
                rule="one evaluation = one damage of one .log file of a generated multi-segment V2 log (4..14 messages, deletes, index files intact): bit flip, 1-8 byte overwrite, truncation, zero-filled tail (quick: one position per record field + length-field high bits + 5 cut points per record; thorough: every position, all bits), then a fresh Open and Get/Consume at every offset, GetByKey/ConsumeByKey for every key, GetByTime at every microsecond, each compared with the same call on the undamaged copy and the model (safety, must-fail, unchanged, no panic, <=256 MiB per call); non-trivial = damage inside a record; distinct by (log hash, damage, field hit, segment role). Thorough adds a 90 s coverage-guided campaign (FuzzDamageRead: log x segment x position x 1-8 bytes) under the same oracle. A quarter of the in-place overwrites are applied under an open handle that has already read every record; after a third of the overwrites an undamaged offset of the damaged segment is deleted and everything re-read"),
    "C18": dict(level="exploration", jobs=[J("TestC18", (4, 10000), (16, 100000)), J("TestC18Exhaustive", (3, 0), (8, 0), kind="plain", timeout=(900, 5400)), J("TestC18Free", (2, 300), (8, 3000)), J("TestC18Macro", (4, 15000), (16, 150000))],
                rule="one evaluation = one complete schedule of a cooperative scheduler inside a testing/synctest bubble: up to 8 waiters (ConsumeBlocking / ConsumeByKeyBlocking, raw and typed wrappers, offsets below/at/above NextOffset and relative), up to 3 publishers (incl. empty batches), cancellations and Close; every goroutine parks at each pause point of the notifier and the blocking wrappers, and each step (resume one parked goroutine / start a call / cancel / Close) is a rapid draw; additionally the complete choice tree is enumerated with an odometer for W=1,P=1 (plain, +cancel, +close, typed), W=1,P=0 (+cancel+close), W=1,P=2 (thorough: W=2,P=1 and W=2,P=1+close), and seeded free-running mixes run without pauses; oracle at every step: a returned waiter had a reason (offset below NextOffset / relative / overlapping Publish, Close, cancel), its result equals what Consume returned at the moment it left the wait, and at FULL quiescence no waiter is blocked that a completed Publish passed, whose context ended, or after Close completed; non-trivial = a Publish-notify, Close or cancel step was taken while a waiter stood between the fast-path check and its park; distinct by (configuration, choice sequence). Up to three other calls on the same handle (Sync, GC, Stat, NextOffset, Delete, Consume, Backup) may be placed anywhere in a schedule (also in three exhaustive configurations): no waiter may notice them; the wrapper is also opened on a non-empty log. Macro job: the same scheduler driven by macro steps drawn per case (start a waiter/publisher, run task i until it stands at pause point p, let task i finish or park, cancel task i), which keeps one goroutine parked at one point while others run through many - a uniformly random walk over single resumes practically never does",
                level_note="interleavings at the granularity of the listed pause points (verif build tag); Go's select between two simultaneously ready wake-up causes is resolved by the runtime, not by the scheduler; virtual time, no wall clock"),
    "C19": dict(level="exploration", jobs=[J("TestC19Handles", (2, 5000), (8, 40000)), J("TestC19Hist", (2, 600), (8, 5000), steps=35)],
                rule="handles job: one case = a sequence of open-RW/open-RO/close/publish/read-only queries/failing opens (flipped index flags, corrupt index with Check, missing directory, a stray file that fails the segment listing after the lock was taken) over three handle slots, checked against the lock matrix; history job: read-only sessions (1-3 handles, optional index removal) inside C01-style histories with full observation against the model, ErrReadonly, byte comparison of *.log; non-trivial = a failed open followed by a successful one, or >=2 simultaneous read-only handles (handles job) / a read-only session on a multi-segment log (history job); distinct by case hash. Handles job also: Backup (into the handle's own directory under four spellings, into another directory), GC and Sync on read-only handles with byte comparison of *.log; read-only open of a damaged head with Check/Recover; reads that fail on a damaged segment, the file repaired, reads again, Close, then a read-write Open must succeed; an Open parked inside its lock acquisition (the lock file made a FIFO) while the writer publishes into new segments and closes must see the writer's final state"),
    "C15": dict(level="exploration", jobs=[J("TestC15", (4, 1500), (16, 12000), steps=40)],
                rule="one case = one history biased to FindBy*/TrimBy* (offset, count, size on single-version logs, age) in single, Multi and MultiOffsets variants with bounds below/inside/above the live range; prefix and bound predicates from the property; non-trivial = a trim removed messages on a state with >=2 segments; distinct by trace hash. Dimensions drawn per case or step in every history job: index configuration; rollover size (incl. exactly the head's size, +-1); NewSegmentsVersion/KeepRewriteVersion/EagerVersionMigrate/Check/Recover/AutoSync re-drawn at every open; index files removed and segment files replaced by symbolic links while closed; directory name (glob/shell characters) and spelling; message times monotone / arbitrary / zero (stamped by the log) / far future / with nanoseconds and a zone / before 1970; keys incl. nil, empty, hash collisions and keys of 300, 5000 and 70000 bytes; values up to 70 KB; a rejected (too big) message at a drawn position of a batch; offsets and bounds up to MaxInt64; nil map/slice; Multi calls with the library's back-off or one that fails / cancels; the invariant after every step or only every n-th (lazy state); read-only sessions incl. GC; a missing key/value is handed out the same way (nil or empty) every time"),
    "C16": dict(level="exploration", jobs=[J("TestC16", (4, 1500), (16, 12000), steps=40)],
                rule="one case = one history over <=5 keys (nil, collision pair) with tombstones, message times on an hour grid relative to the run start so Compact(age) is clock-insensitive; latest-value map before/after and allowed-removal predicates; non-trivial = a compaction removed messages and met a tombstone or a multi-segment log; distinct by trace hash. Dimensions drawn per case or step in every history job: index configuration; rollover size (incl. exactly the head's size, +-1); NewSegmentsVersion/KeepRewriteVersion/EagerVersionMigrate/Check/Recover/AutoSync re-drawn at every open; index files removed and segment files replaced by symbolic links while closed; directory name (glob/shell characters) and spelling; message times monotone / arbitrary / zero (stamped by the log) / far future / with nanoseconds and a zone / before 1970; keys incl. nil, empty, hash collisions and keys of 300, 5000 and 70000 bytes; values up to 70 KB; a rejected (too big) message at a drawn position of a batch; offsets and bounds up to MaxInt64; nil map/slice; Multi calls with the library's back-off or one that fails / cancels; the invariant after every step or only every n-th (lazy state); read-only sessions incl. GC; a missing key/value is handed out the same way (nil or empty) every time"),
    "C17": dict(level="exploration", jobs=[J("TestC17", (4, 450), (16, 4000), steps=40)],
                rule="one case = one history where every reopen re-draws NewSegmentsVersion/KeepRewriteVersion/EagerVersionMigrate and Migrate runs to either version; model unchanged across migration (full observation), version byte of every segment file checked after migrate/eager open/publish/delete, migrate twice == once; non-trivial = both versions present at once and a delete or migration afterwards; distinct by trace hash. Dimensions drawn per case or step in every history job: index configuration; rollover size (incl. exactly the head's size, +-1); NewSegmentsVersion/KeepRewriteVersion/EagerVersionMigrate/Check/Recover/AutoSync re-drawn at every open; index files removed and segment files replaced by symbolic links while closed; directory name (glob/shell characters) and spelling; message times monotone / arbitrary / zero (stamped by the log) / far future / with nanoseconds and a zone / before 1970; keys incl. nil, empty, hash collisions and keys of 300, 5000 and 70000 bytes; values up to 70 KB; a rejected (too big) message at a drawn position of a batch; offsets and bounds up to MaxInt64; nil map/slice; Multi calls with the library's back-off or one that fails / cancels; the invariant after every step or only every n-th (lazy state); read-only sessions incl. GC; a missing key/value is handed out the same way (nil or empty) every time. Every case mixes versions (reopen prefers the other NewSegmentsVersion); the index layout rule of C13 is checked at every close"),
    "C20": dict(level="exploration", jobs=[J("TestC20", (4, 600), (16, 5000), steps=40)],
                rule="one case = one history with Log.Backup / package Backup into a fresh directory, or into the previous one when only publishes happened since; Check passes, the opened backup is fully observed against the model at the time of the call, source files byte- and mtime-identical (missing index files may be rebuilt); non-trivial = a repeated backup with a rollover in between, or a source with an emptied head / rebased segment; distinct by trace hash. Dimensions drawn per case or step in every history job: index configuration; rollover size (incl. exactly the head's size, +-1); NewSegmentsVersion/KeepRewriteVersion/EagerVersionMigrate/Check/Recover/AutoSync re-drawn at every open; index files removed and segment files replaced by symbolic links while closed; directory name (glob/shell characters) and spelling; message times monotone / arbitrary / zero (stamped by the log) / far future / with nanoseconds and a zone / before 1970; keys incl. nil, empty, hash collisions and keys of 300, 5000 and 70000 bytes; values up to 70 KB; a rejected (too big) message at a drawn position of a batch; offsets and bounds up to MaxInt64; nil map/slice; Multi calls with the library's back-off or one that fails / cancels; the invariant after every step or only every n-th (lazy state); read-only sessions incl. GC; a missing key/value is handed out the same way (nil or empty) every time. The previous directory is also reused across sessions, GC and Sync; backups also through a read-only handle, into the wiped directory of the previous backup, and the last three earlier backups are re-opened after every backup"),
}

ASSUMPTIONS = {
    "_all": ["the reference model and the independent codec in /verif/harness are correct (they are small and written from the property text / documented layout)",
             "exploration is bounded: logs of at most ~100 messages and ~15 segments per case; absence of violations is not a proof"],
}


def scratch_root():
    base = "/dev/shm" if os.path.isdir("/dev/shm") else (os.environ.get("TMPDIR") or "/tmp")
    d = os.path.join(base, "vf-run-%d" % os.getpid())
    os.makedirs(d, exist_ok=True)
    return d


def harness_dir(scr):
    """The harness module; with VF_REPO set (background runs against a snapshot of the repository) a
    scratch copy whose replace directive points there. Registered commands never set VF_REPO."""
    repo = os.environ.get("VF_REPO")
    if not repo:
        return HARNESS
    dst = os.path.join(scr, "harness")
    if not os.path.isdir(dst):
        shutil.copytree(HARNESS, dst)
        subprocess.run([GO, "mod", "edit", "-replace", "github.com/klev-dev/klevdb=" + repo], cwd=dst, env=ENV, check=True)
    return dst


def build(scr, race=False):
    HARNESS = harness_dir(scr)
    out = os.path.join(scr, "vf.race.test" if race else "vf.test")
    cmd = [GO, "test", "-tags", "verif", "-c", "-o", out]
    if race:
        cmd.append("-race")
    cmd.append(".")
    if not os.path.exists(os.path.join(HARNESS, "go.sum")):
        shutil.copy("/repo/go.sum", os.path.join(HARNESS, "go.sum"))
    p = subprocess.run(cmd, cwd=HARNESS, env=ENV, stdout=subprocess.PIPE, stderr=subprocess.STDOUT, text=True)
    if p.returncode != 0:
        print(p.stdout)
        print("INCONCLUSIVE: harness build failed")
        return None
    return out


def run_job(scr, binary, pid, job, tier, seed, jobidx):
    shards, cases = job[tier]
    if shards <= 0:
        return []
    procs = []
    for i in range(shards):
        s = splitmix(seed, jobidx * 1000 + i)
        work = os.path.join(scr, "w-%d-%d" % (jobidx, i))
        os.makedirs(work, exist_ok=True)
        stats = os.path.join(scr, "stats-%d-%d.json" % (jobidx, i))
        env = dict(ENV)
        env.update({"VF_STATS": stats, "VF_SCRATCH": work, "VF_TIER": tier, "VF_SEED": str(s), "VF_CASES": str(cases),
                    "VF_SHARD": str(i), "VF_SHARDS": str(shards), "TMPDIR": work})
        env.update(job["env"])
        to = job["timeout"][0 if tier == "quick" else 1]
        cmd = [binary, "-test.run", "^%s$" % job["test"], "-test.v", "-test.timeout", "%ds" % to, "-test.count", "1"]
        if job["kind"] == "rapid":
            cmd += ["-rapid.checks=%d" % cases, "-rapid.seed=%d" % s, "-rapid.steps=%d" % job["steps"], "-rapid.nofailfile", "-rapid.shrinktime=60s"]
        if job["kind"] == "fuzz":
            # native coverage-guided fuzzing: cannot be seeded; `cases` is the campaign length in seconds
            corpus = os.path.join(ROOT, "corpus", job["test"])
            if os.path.isdir(corpus):
                dst = os.path.join(work, "testdata", "fuzz", job["test"])
                shutil.copytree(corpus, dst, dirs_exist_ok=True)
            cmd = [binary, "-test.run", "^$", "-test.fuzz", "^%s$" % job["test"], "-test.fuzztime", "%ds" % cases,
                   "-test.fuzzcachedir", os.path.join(work, "fuzzcache"), "-test.parallel", str(NCPU), "-test.timeout", "%ds" % (cases + 600)]
        log = open(os.path.join(scr, "log-%d-%d.txt" % (jobidx, i)), "w")
        p = subprocess.Popen(cmd, cwd=work, env=env, stdout=log, stderr=subprocess.STDOUT)
        procs.append((p, log, stats, i, cases, s))
    res = []
    for p, log, stats, i, cases, s in procs:
        rc = p.wait()
        log.close()
        out = open(log.name, errors="replace").read()
        st = None
        if os.path.exists(stats):
            try:
                st = json.load(open(stats))
            except Exception:
                st = None
        res.append(dict(rc=rc, out=out, stats=st, shard=i, cases=cases, seed=s))
    return res


def check(pid, tier, seed):
    if pid not in CHECKS:
        print("unknown property", pid)
        return 2
    spec = CHECKS[pid]
    t0 = time.time()
    scr = scratch_root()
    try:
        bins = {}
        for race in sorted({j["race"] for j in spec["jobs"]}):
            b = build(scr, race)
            if b is None:
                return 2
            bins[race] = b
        violations = []
        inconclusive = []
        merged = dict(evaluations=0, counters={}, nt=set(), samples=[], known={}, known_what={}, exhaustive=None, space=[])
        jobs = list(spec["jobs"])
        regdir = os.path.join(ROOT, "regress", pid)
        if os.path.isdir(regdir) and any(f.endswith(".json") for f in os.listdir(regdir)):
            # seconds-long regression tier: saved shrunk cases, replayed without rapid
            jobs.insert(0, J("TestRegress", (1, 0), (1, 0), kind="plain", env={"VF_REGRESS_DIR": regdir, "VF_PROP": pid}))
        for ji, job in enumerate(jobs):
            if job["race"] not in bins:
                bins[job["race"]] = build(scr, job["race"])
            results = run_job(scr, bins[job["race"]], pid, job, tier, seed, ji)
            for r in results:
                vl = [l for l in r["out"].splitlines() if l.startswith("VIOLATION property=")]
                if job["race"] and "WARNING: DATA RACE" in r["out"]:
                    os.makedirs(os.path.join(ROOT, "replay", pid), exist_ok=True)
                    i0 = r["out"].index("WARNING: DATA RACE")
                    rep = r["out"][i0:i0 + 6000]
                    import hashlib
                    sig = hashlib.sha256(re.sub(r"0x[0-9a-f]+|goroutine \d+|\+0x[0-9a-f]+", "", rep).encode()).hexdigest()[:12]
                    dst = os.path.join(os.environ.get("VF_REPLAY_DIR") or os.path.join(ROOT, "replay", pid), "race-%s.txt" % sig)
                    os.makedirs(os.path.dirname(dst), exist_ok=True)
                    with open(dst, "w") as f:
                        f.write("Go race detector report (free-running schedule, seed %d):\n%s" % (r["seed"], rep))
                    vl.append("VIOLATION property=%s replay=%s" % (pid, dst))
                if job["kind"] == "fuzz":
                    mm = re.findall(r"execs: (\d+)", r["out"])
                    if mm:
                        merged["counters"]["fuzz_execs." + job["test"]] = merged["counters"].get("fuzz_execs." + job["test"], 0) + int(mm[-1])
                    fm = re.search(r"Failing input written to (\S+)", r["out"])
                    if r["rc"] != 0 and fm:
                        src = os.path.join(scr, "w-%d-%d" % (ji, r["shard"]), fm.group(1))
                        os.makedirs(os.path.join(ROOT, "replay", pid), exist_ok=True)
                        dst = os.path.join(ROOT, "replay", pid, job["test"] + "-" + os.path.basename(fm.group(1)))
                        try:
                            shutil.copy(src, dst)
                        except Exception:
                            dst = src
                        vl.append("VIOLATION property=%s replay=%s" % (pid, dst))
                if vl:
                    violations += vl
                    tail = "\n".join(r["out"].splitlines()[-60:])
                    print("---- %s shard %d (seed %d) ----\n%s" % (job["test"], r["shard"], r["seed"], tail[-6000:]))
                elif r["rc"] != 0:
                    tail = "\n".join(r["out"].splitlines()[-40:])
                    print("---- %s shard %d exited %d without a violation line ----\n%s" % (job["test"], r["shard"], r["rc"], tail[-4000:]))
                    inconclusive.append("%s shard %d rc=%d" % (job["test"], r["shard"], r["rc"]))
                else:
                    if job["kind"] == "rapid":
                        m = re.search(r"OK, passed (\d+) tests", r["out"])
                        if not m or int(m.group(1)) < r["cases"]:
                            inconclusive.append("%s shard %d passed %s of %d cases" % (job["test"], r["shard"], m.group(1) if m else "?", r["cases"]))
                    if r["stats"] is None and job["kind"] != "fuzz":
                        inconclusive.append("%s shard %d wrote no statistics" % (job["test"], r["shard"]))
                st = r["stats"]
                if st:
                    merged["evaluations"] += st.get("evaluations", 0)
                    for k, v in (st.get("counters") or {}).items():
                        merged["counters"][k] = merged["counters"].get(k, 0) + v
                    merged["nt"].update(st.get("nontrivial_hashes") or [])
                    for smp in (st.get("samples") or []):
                        if len(merged["samples"]) < 4:
                            merged["samples"].append(smp)
                    for k, v in (st.get("known") or {}).items():
                        merged["known"][k] = merged["known"].get(k, 0) + v
                        merged["known_what"][k] = (st.get("known_what") or {}).get(k, "")
                    if "exhaustive" in st and st.get("space"):
                        merged["exhaustive"] = st["exhaustive"] if merged["exhaustive"] is None else (merged["exhaustive"] and st["exhaustive"])
                        if st["space"] not in merged["space"]:
                            merged["space"].append(st["space"])
        for k in sorted(merged["known"]):
            print("KNOWN-FINDING: property=%s %s (id %s, seen %d times this run)" % (pid, merged["known_what"][k], k, merged["known"][k]))
        wall = time.time() - t0
        cov = dict(evaluations=merged["evaluations"], distinct_nontrivial=len(merged["nt"]), rule=spec["rule"],
                   samples=merged["samples"], classes=dict(sorted(merged["counters"].items())),
                   excluded_known=merged["known"])
        if merged["exhaustive"] is not None:
            cov["exhaustive"] = bool(merged["exhaustive"])
            cov["exhaustive_space"] = merged["space"]
        ev = dict(property_id=pid, tier=tier, seed=seed, level=spec["level"], coverage=cov,
                  assumptions=ASSUMPTIONS["_all"] + spec.get("assumptions", []), wall_s=round(wall, 2),
                  violations=len(violations), inconclusive=inconclusive)
        evdir = os.environ.get("VF_EVIDENCE_DIR") or os.path.join(ROOT, "evidence")  # sensitivity runs redirect this
        os.makedirs(evdir, exist_ok=True)
        with open(os.path.join(evdir, pid + ".json"), "w") as f:
            json.dump(ev, f, indent=1)
        if violations:
            for v in sorted(set(violations)):
                print(v)
            return 1
        if inconclusive:
            print("INCONCLUSIVE property=%s: %s" % (pid, "; ".join(inconclusive)))
            return 2
        print("OK property=%s tier=%s seed=%d evaluations=%d distinct_nontrivial=%d wall=%.1fs" % (pid, tier, seed, cov["evaluations"], cov["distinct_nontrivial"], wall))
        return 0
    finally:
        shutil.rmtree(scr, ignore_errors=True)


def replay(pid, path):
    scr = scratch_root()
    try:
        b = build(scr, False)
        if b is None:
            return 2
        env = dict(ENV)
        env.update({"VF_REPLAY": os.path.abspath(path), "VF_SCRATCH": scr, "TMPDIR": scr})
        p = subprocess.run([b, "-test.run", "^TestReplay$", "-test.v", "-test.timeout", "600s"], cwd=scr, env=env, stdout=subprocess.PIPE, stderr=subprocess.STDOUT, text=True)
        print(p.stdout[-8000:])
        if "VIOLATION property=" in p.stdout:
            return 1
        return 0 if p.returncode == 0 else 2
    finally:
        shutil.rmtree(scr, ignore_errors=True)


def setup():
    scr = scratch_root()
    try:
        ok = build(scr, False) is not None
        ok = (build(scr, True) is not None) and ok
        return 0 if ok else 2
    finally:
        shutil.rmtree(scr, ignore_errors=True)


ENGINES = {
    "hist": ("harness/hist.go", "rapid state machine driving a real log and a reference model in lock-step; per-property profiles and oracles; traces replay without rapid"),
    "codec": ("harness/codec_test.go", "differential test of the record/index codecs against an independent encoder/decoder; native fuzz target; fixed enumerations of the largest message sizes and of index sizes around block boundaries (c13_boundary_test.go)"),
    "segdamage": ("harness/c07_test.go", "exhaustive damage enumeration of generated head segments with an independent reference parser"),
    "apidamage": ("harness/c14_test.go", "damage enumeration on multi-segment logs observed through the whole read API, differential against the undamaged copy"),
    "handles": ("harness/c19_test.go", "lock-matrix state machine over three handles"),
    "crash": ("harness/crash.go", "FS-tap crash-image and power-loss-image synthesis from complete runs, admissible-set oracle"),
    "sched": ("harness/sched_test.go", "owned pause-point windows with brute-force linearization and deadlock inspection (sched_test.go); Multi helpers held inside a Delete next to a Publish (helpers_test.go); free-running stress, duets, big appends and tail races, partly under the race detector (stress_test.go)"),
    "notify": ("harness/notify_test.go", "cooperative scheduler over the notifier's pause points inside a synctest bubble: random single steps, macro steps, exhaustive small configurations, free-running mixes"),
}

PROP_ENGINES = {"C05": ["crash"], "C06": ["crash"], "C07": ["segdamage"], "C08": ["sched"], "C13": ["codec", "hist"], "C14": ["apidamage"],
                "C18": ["notify"], "C19": ["handles", "hist"]}

TECHNIQUE = {
    "hist": "model-based stateful property-based testing (rapid state machine vs reference model)",
    "codec": "differential property-based testing against an independent codec + coverage-guided fuzzing",
    "segdamage": "generated segments x exhaustive fault enumeration against a reference parser (property-based)",
    "apidamage": "generated logs x enumerated byte-level faults, differential + model oracle (property-based)",
    "handles": "stateful property-based testing against a lock-matrix model",
    "crash": "generated workloads x enumeration of every file-system step (crash / torn / power-loss images) against an admissible-set oracle",
    "sched": "generated schedules at owned pause points with a linearizability oracle; seeded stress under the Go race detector",
    "notify": "generated and exhaustively enumerated schedules of a cooperative scheduler (synctest bubble) with a quiescence oracle",
}


def manifest():
    props = [json.loads(l) for l in open(os.path.join(ROOT, "properties.jsonl"))]
    checks = []
    used = {}
    for p in props:
        pid = p["id"]
        if pid not in CHECKS:
            continue
        engs = PROP_ENGINES.get(pid, ["hist"])
        for e in engs:
            used.setdefault(e, []).append(pid)
        spec = CHECKS[pid]
        checks.append(dict(property_id=pid,
                           quick_cmd="python3 verif.py check %s --tier quick" % pid,
                           thorough_cmd="python3 verif.py check %s --tier thorough" % pid,
                           evidence_file="/verif/evidence/%s.json" % pid,
                           replay_cmd_template="python3 verif.py replay %s {path}" % pid,
                           engine="+".join(engs),
                           level_claimed=dict(category=spec["level"],
                                              text=spec.get("level_text", "generated-input search against an explicit oracle: " + spec["rule"][:400]),
                                              design_ref="DESIGN.md section 4, " + pid),
                           level_note=spec.get("level_note", "bounded exploration (small logs, finite case counts); trusts the reference model / independent codec in /verif/harness, the Go toolchain and (where used) the verif build-tag hooks being complete; absence of a violation is not a proof"),
                           technique="; ".join(TECHNIQUE[e] for e in engs)))
    claimed = {c["property_id"] for c in checks}
    na = [dict(property_id=p["id"], reason=NOT_YET.get(p["id"], "not claimed")) for p in props if p["id"] not in claimed]
    hook_commits = subprocess.run(["git", "-C", "/repo", "log", "--format=%h", "--grep", "^verif hooks"], stdout=subprocess.PIPE, text=True).stdout.split()
    m = dict(version=1, setup_cmd="python3 verif.py setup",
             hooks=dict(guard="verif", enable="go test -tags verif (harness module /verif/harness has `replace github.com/klev-dev/klevdb => /repo`)",
                        baseline_off_cmd="cd /repo && GOPROXY=off GOSUMDB=off GOTOOLCHAIN=local go1.26.8 test -json -vet=off -count=1 -timeout 25m ./...",
                        source_commits=hook_commits, add_only=True),
             engines=[dict(name=e, path=ENGINES[e][0], serves_properties=sorted(used[e]), kind_free_text=ENGINES[e][1]) for e in ENGINES if e in used],
             checks=checks, not_applicable=na,
             notes="Technique family: property-based testing and fuzzing. See DESIGN.md. known_findings.json lists repaired defects (fix: commits in /repo, status fixed, suppress nothing) and recorded findings (matched by exact signature).")
    with open(os.path.join(ROOT, "MANIFEST.json"), "w") as f:
        json.dump(m, f, indent=1)
    print("MANIFEST.json: %d checks, %d not_applicable" % (len(checks), len(na)))
    return 0


NOT_YET = {}


def main():
    a = sys.argv[1:]
    if not a:
        print(__doc__)
        return 2
    tier = os.environ.get("VERIF_TIER", "quick")
    seed = int(os.environ.get("VERIF_SEED", "1") or "1")
    if "--tier" in a:
        i = a.index("--tier")
        tier = a[i + 1]
        del a[i:i + 2]
    if "--seed" in a:
        i = a.index("--seed")
        seed = int(a[i + 1])
        del a[i:i + 2]
    if tier not in ("quick", "thorough"):
        tier = "quick"
    if a[0] == "setup":
        return setup()
    if a[0] == "manifest":
        return manifest()
    if a[0] == "check":
        return check(a[1], tier, seed)
    if a[0] == "replay":
        return replay(a[1], a[2])
    if a[0] == "all":
        rc = 0
        for pid in sorted(CHECKS):
            r = check(pid, tier, seed)
            rc = max(rc, r)
        return rc
    print(__doc__)
    return 2


if __name__ == "__main__":
    sys.exit(main())
