#!/usr/bin/env python3
"""Re-point the 'fixed' entries of known_findings.json at the current fix: commits of /repo (by subject)."""
import json, subprocess, re
log = subprocess.run(['git', '-C', '/repo', 'log', '--format=%h %s'], stdout=subprocess.PIPE, text=True).stdout.splitlines()
subj = {'D1': 'equal-time', 'D2': 'partial message header', 'D3': 'instead of panicking', 'D4': 'Stat and Backup rebuild', 'D5': 'Get(OffsetNewest)',
        'D6': 'skips an empty head', 'D7': 'never roll over', 'D8': 'index file is missing no longer fails', 'K1': 'create the new head',
        'K3': 'data race reading', 'K4': 'stale .recover', 'K5': 'through a temp file', 'K6': 'stale head reader', 'D9': 'message that is too big', 'D10': 'empty directory keeps answering', 'K7': 'still being appended'}
def h(sub):
    for l in log:
        if sub in l and ' fix:' in ' ' + l:
            return l.split()[0]
    raise SystemExit('no fix commit for ' + sub)
p = '/verif/known_findings.json'
d = json.load(open(p))
for f in d['findings']:
    if f['status'] == 'fixed' and f['id'] in subj:
        new = h(subj[f['id']])
        f['what'] = f['what'].replace(f['commit'], new)
        f['commit'] = new
json.dump(d, open(p, 'w'), indent=1)
print('ok')
