#!/bin/bash
# background soak of some properties at many seeds: tools/soak_some.sh "<ids>" <first-seed> <last-seed>
cd "$(dirname "$0")/.."
export VF_REPO="${VP_RUN_REPO:-/repo}"
export VF_REPLAY_DIR="$PWD/replay-bg"
export VF_EVIDENCE_DIR="$PWD/evidence-bg"
for s in $(seq ${2:-10} ${3:-19}); do
  for id in $1; do
    out=$(python3 verif.py check "$id" --tier quick --seed $s 2>&1)
    rc=$?
    echo "$out" | grep -E "^(OK|VIOLATION|INCONCLUSIVE)" | sort -u | cut -c1-200
    if [ $rc -ne 0 ]; then echo "!!! rc=$rc $id seed=$s"; echo "$out" | tail -40 | cut -c1-1200; fi
  done
done
