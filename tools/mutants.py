#!/usr/bin/env python3
"""Sensitivity runner: applies each listed change to a scratch worktree of /repo (never /repo itself),
records whether the repository's own suite still passes, runs the quick checks of the targeted
properties against it (VF_REPO), and prints one line per change. Usage: tools/mutants.py [ids...]"""
import json, os, subprocess, sys, time, shutil

WT = "/tmp/vf-mutrepo"
ENVGO = dict(os.environ, GOPROXY="off", GOSUMDB="off", GOTOOLCHAIN="local")

M = []
def mut(id, props, file, old, new, note="", control=False):
    M.append(dict(id=id, props=props, file=file, old=old, new=new, note=note, control=control))

mut("M01-rollover-name", ["C01", "C02"], "log.go", "segment.New(l.dir, nextOffset, l.opts.AutoSync), l.params, l.opts.Version.NewSegmentsVersion, nextTime)", "segment.New(l.dir, nextOffset-1, l.opts.AutoSync), l.params, l.opts.Version.NewSegmentsVersion, nextTime)", "rollover names the new segment nextOffset-1")
mut("M02-rewrite-drops-survivor", ["C01", "C12"], "pkg/segment/segment.go", "\t\tif _, ok := dropOffsets[msg.Offset]; ok {\n\t\t\tdst.DeletedMessages", "\t\tif len(dst.DeletedMessages) > 0 && len(msg.Value) == 0 && msg.Offset == dst.DeletedMessages[len(dst.DeletedMessages)-1].Offset+1 {\n\t\t\tsrcPosition = nextSrcPosition\n\t\t\tcontinue\n\t\t}\n\t\tif _, ok := dropOffsets[msg.Offset]; ok {\n\t\t\tdst.DeletedMessages", "Rewrite silently drops a value-less survivor right after a deleted message")
mut("M03-override-stale-index", ["C11", "C01", "C03"], "pkg/segment/segment.go", "\tif err := os.Rename(olds.Index, news.Index); err != nil {\n\t\treturn fmt.Errorf(\"override index rename: %w\", err)\n\t}", "\t_ = os.Remove(olds.Index)\n\tif err := index.Write(news.Index, news.Offset, index.V2, index.Params{}, nil); err != nil && false {\n\t\treturn err\n\t}", "Override drops the rewritten index and leaves an empty one")
mut("M04-index-consume-off-by-one", ["C03"], "pkg/index/offset.go", "\tcase offset <= beginItem.Offset:\n\t\treturn beginItem.Position, items[len(items)-1].Position, nil", "\tcase offset < beginItem.Offset:\n\t\treturn beginItem.Position, items[len(items)-1].Position, nil", "index.Consume < instead of <= at the begin item (falls to the search, fine) -- equivalent?")
mut("M05-consume-no-handoff", ["C03", "C04"], "log.go", "\tif err == index.ErrOffsetAfterEnd && segmentIndex < len(l.readers)-1 {\n\t\t// this is after the end, consume starting the next one", "\tif err == index.ErrOffsetAfterEnd && segmentIndex < len(l.readers)-2 {\n\t\t// this is after the end, consume starting the next one", "after-end hand-off in log.Consume skipped for the segment before the head")
mut("M06-get-afterend-not-mapped", ["C04"], "log.go", "\tif err == index.ErrOffsetAfterEnd && segmentIndex < len(l.readers)-1 {\n\t\treturn msg, index.ErrOffsetNotFound\n\t}", "", "log.Get does not map after-end (in a hole between segments) to not-found")
mut("M07-empty-batch-bumps", ["C02"], "log_writer.go", "\tnextOffset, indexTime := w.index.getNext()\n\n\titems := make([]index.Item, len(msgs))", "\tnextOffset, indexTime := w.index.getNext()\n\tif len(msgs) == 0 {\n\t\treturn nextOffset + 1, nil\n\t}\n\n\titems := make([]index.Item, len(msgs))", "Publish of an empty batch returns NextOffset+1")
mut("M08-carried-offset-ignored", ["C02", "C05"], "log_writer.go", "\tnextOffset := offset\n\tnextTime := timestamp\n\tif len(items) > 0 {\n\t\tnextOffset = items[len(items)-1].Offset + 1\n\t\tnextTime = items[len(items)-1].Timestamp\n\t}\n\tix.nextOffset.Store(nextOffset)", "\tnextOffset := offset\n\tnextTime := timestamp\n\tif len(items) > 0 {\n\t\tnextOffset = items[len(items)-1].Offset + 1\n\t\tnextTime = items[len(items)-1].Timestamp\n\t} else if offset > 0 && timestamp == 0 {\n\t\tnextOffset = offset - 1\n\t}\n\tix.nextOffset.Store(nextOffset)", "reopening on an empty head segment starts one offset too low (offset reuse after tail delete + reopen)")
mut("M09-getbykey-no-equal", ["C09"], "log_reader.go", "\t\tif bytes.Equal(key, msg.Key) {\n\t\t\treturn msg, nil\n\t\t}", "\t\tif true || bytes.Equal(key, msg.Key) {\n\t\t\treturn msg, nil\n\t\t}", "GetByKey trusts the hash")
mut("M10-consumebykey-no-equal", ["C09"], "log_reader.go", "\t\tif bytes.Equal(key, msg.Key) {\n\t\t\tmsgs = append(msgs, msg)", "\t\tif true || bytes.Equal(key, msg.Key) {\n\t\t\tmsgs = append(msgs, msg)", "ConsumeByKey trusts the hash")
mut("M11-time-search-gt", ["C10"], "pkg/index/times.go", "return items[midIndex].Timestamp >= ts", "return items[midIndex].Timestamp > ts", "sort.Search predicate > instead of >=")
mut("M12-getbytime-oldest-first", ["C10", "C15"], "log.go", "\t\tcase index.ErrTimeBeforeStart:\n\t\t\t// not in this segment, try the rest\n\t\t\tif i == 0 {\n\t\t\t\treturn rdr.Get(message.OffsetOldest)\n\t\t\t}", "\t\tcase index.ErrTimeBeforeStart:\n\t\t\t// not in this segment, try the rest\n\t\t\tif i <= 1 {\n\t\t\t\treturn rdr.Get(message.OffsetOldest)\n\t\t\t}", "GetByTime stops one segment early when the time is before a segment's start")
mut("M13-rewrite-src-positions", ["C11", "C01", "C12"], "pkg/segment/segment.go", "\t\t\titem := params.NewItem(msg, dstPosition, indexTime)\n\t\t\tdstIndex = append(dstIndex, item)", "\t\t\titem := params.NewItem(msg, dstPosition, indexTime)\n\t\t\tif srcVersion != mversion {\n\t\t\t\titem.Position = srcPosition\n\t\t\t}\n\t\t\tdstIndex = append(dstIndex, item)", "Rewrite into another version writes source positions into the new index")
mut("M14-migrate-keeps-index-ts", ["C11", "C17"], "pkg/segment/segment.go", "\t\titem := params.NewItem(msg, migratedPosition, indexTime)\n\t\tmigratedIndex = append(migratedIndex, item)", "\t\titem := params.NewItem(msg, migratedPosition, indexTime)\n\t\titem.Position = oldPosition\n\t\tmigratedIndex = append(migratedIndex, item)", "Migrate writes the old positions into the migrated index")
mut("M15-deletedsize-target-version", ["C12"], "pkg/segment/segment.go", "dst.DeletedSize += message.Size(msg, srcVersion) + params.Size()", "dst.DeletedSize += message.Size(msg, mversion) + params.Size()\n\t\t\t_ = srcVersion", "DeletedSize computed in the target version")
mut("M16-deletemulti-stops-early", ["C12", "C15"], "delete.go", "\t\tdeletedMessages = append(deletedMessages, deleted...)\n\t\tdeletedSize += size\n\t\tfor _, msg := range deleted {\n\t\t\tdelete(remainingOffsets, msg.Offset)\n\t\t}\n", "\t\tdeletedMessages = append(deletedMessages, deleted...)\n\t\tdeletedSize += size\n\t\tfor _, msg := range deleted {\n\t\t\tdelete(remainingOffsets, msg.Offset)\n\t\t}\n\t\tif len(deletedMessages) >= 5 {\n\t\t\treturn deletedMessages, deletedSize, nil\n\t\t}\n", "DeleteMulti gives up after 5 messages")
mut("M17-v2-swap-fields", ["C13"], "pkg/message/format.go", None, None, "V2 encoder and decoder both swap offset and time fields (symmetric: round-trip tests stay green)")
mut("M18-stat-wrong-item-size", ["C13", "C15"], "pkg/index/format.go", "return dataSize, int((dataSize - HeaderSize) / opts.Size()), nil", "return dataSize, int((dataSize - HeaderSize) / 16), nil", "index.Stat counts V2 index items as if they were 16 bytes in every layout")
mut("M19-skip-crc-when-trailer-ok", ["C14", "C07"], "pkg/message/format.go", "\tif expectedCRC != actualCRC {\n\t\treturn -1, errCrcFailed\n\t}\n\n\t// Verify trailer", "\tif expectedCRC != actualCRC && !bytes.Equal(payload[headerPayloadSize+int(keySize)+int(valueSize):], trailerMagicData) {\n\t\treturn -1, errCrcFailed\n\t}\n\n\t// Verify trailer", "V2 reader accepts a bad CRC when the trailer matches")
mut("M20-no-length-bound", ["C14", "C07", "C13"], "pkg/message/format.go", "\tif int(keySize)+int(valueSize) > maxMessageBodySize {\n\t\treturn -1, errInvalidHeader\n\t}\n\tposition += v2HeaderSize", "\tposition += v2HeaderSize", "V2 reader without the 64 MiB bound")
mut("M21-count-off-by-one", ["C15"], "trim_count.go", "toRemove := stats.Messages - max", "toRemove := stats.Messages - max + 1", "FindByCount removes one too many")
mut("M22-size-loop-le", ["C15"], "trim_size.go", "\t\t\tif total < sz {\n\t\t\t\tbreak\n\t\t\t}", "\t\t\tif total <= sz {\n\t\t\t\tbreak\n\t\t\t}", "FindBySize stops at <= instead of <")
mut("M23-findupdates-marks-later", ["C16"], "compact_updates.go", "offsets[prevMsgOffset.(int64)] = struct{}{}", "_ = prevMsgOffset\n\t\t\t\toffsets[msg.Offset] = struct{}{}", "FindUpdates marks the later message")
mut("M24-finddeletes-ignores-seen", ["C16"], "compact_deletes.go", "\t\t\tif _, ok := keyOffset.Search(msg.Key); ok {\n\t\t\t\tcontinue\n\t\t\t}", "\t\t\tif _, ok := keyOffset.Search(msg.Key); ok && msg.Value != nil {\n\t\t\t\tcontinue\n\t\t\t}", "FindDeletes ignores 'seen before' for tombstones")
mut("M25-rewrite-ignores-keep", ["C17"], "log.go", "\tif l.opts.Version.KeepRewriteVersion {\n\t\tvar detected message.Version", "\tif l.opts.Version.KeepRewriteVersion && !l.opts.KeyIndex {\n\t\tvar detected message.Version", "KeepRewriteVersion ignored on key-indexed logs")
mut("M26-eager-skips-head", ["C17"], "log.go", "\t\t\tfor _, seg := range segments {\n\t\t\t\tif err := seg.Migrate(", "\t\t\tfor _, seg := range segments[:len(segments)-1] {\n\t\t\t\tif err := seg.Migrate(", "eager migration skips the head segment")
mut("M27-no-unlock-on-failed-open", ["C19"], "log.go", "\t\tif err != nil {\n\t\t\tif lerr := lock.Unlock(); lerr != nil {\n\t\t\t\terr = fmt.Errorf(\"%w: open release lock: %w\", err, lerr)\n\t\t\t}\n\t\t}", "\t\tif err != nil && opts.Readonly {\n\t\t\tif lerr := lock.Unlock(); lerr != nil {\n\t\t\t\terr = fmt.Errorf(\"%w: open release lock: %w\", err, lerr)\n\t\t\t}\n\t\t}", "a failed read-write Open keeps the lock")
mut("M28-ro-exclusive-lock", ["C19"], "log.go", "switch ok, err := lock.TryRLock(); {", "switch ok, err := lock.TryLock(); {", "read-only opens take the exclusive lock")
mut("M29-backup-skip-existing", ["C20"], "pkg/segment/utils.go", "\t\tcase stat.Size() == dstStat.Size() && stat.ModTime().Equal(dstStat.ModTime()):", "\t\tcase stat.Size() >= 0 || stat.ModTime().Equal(dstStat.ModTime()):", "Backup never re-copies an existing destination file")
mut("M30-backup-skips-last-reader", ["C20"], "log.go", "\tfor _, reader := range l.readers {\n\t\tif err := reader.Backup(dir); err != nil {", "\tfor i, reader := range l.readers {\n\t\tif i == len(l.readers)-1 && i > 2 {\n\t\t\tbreak\n\t\t}\n\t\tif err := reader.Backup(dir); err != nil {", "Log.Backup skips the head when there are more than three segments")
mut("M31-control-backup-no-fsync", ["C20"], "pkg/segment/utils.go", "\tif err := fdst.Sync(); err != nil {\n\t\treturn fmt.Errorf(\"copy dst sync: %w\", err)\n\t}\n", "", "CONTROL: backup copy without fsync (durability of backups is not in the property)", control=True)
mut("M32-recover-keeps-corrupt", ["C05", "C07"], "pkg/segment/segment.go", "\t\t} else if errors.Is(err, message.ErrCorrupted) {\n\t\t\tcorrupted = true\n\t\t\tbreak", "\t\t} else if errors.Is(err, message.ErrCorrupted) {\n\t\t\tcorrupted = nextPosition != -1 || len(restoreIndex) > 1\n\t\t\tbreak", "Recover does not truncate when at most one record precedes the damage")
mut("M33-rewrite-no-sync", ["C06"], "pkg/segment/segment.go", "\tif err := dstLog.SyncAndClose(); err != nil {\n\t\treturn nil, err\n\t}\n\tif err := index.Write(dst.Index", "\tif err := dstLog.Close(); err != nil {\n\t\treturn nil, err\n\t}\n\tif err := index.Write(dst.Index", "Rewrite closes the rewritten log without fsync")
mut("M34-sync-skips-index", ["C06"], "log_writer.go", "\tif err := w.items.Sync(); err != nil {\n\t\treturn err\n\t}\n\treturn nil", "\treturn nil", "writer.Sync does not fsync the index (benign: the index is derived data?)")
mut("M35-autosync-no-sync", ["C06"], "log.go", "\tif l.opts.AutoSync {\n\t\tif err := l.writer.Sync(); err != nil {", "\tif l.opts.AutoSync && len(msgs) > 1 {\n\t\tif err := l.writer.Sync(); err != nil {", "AutoSync skips the fsync for single-message batches")
mut("M36-check-ignores-extra-items", ["C07"], "pkg/segment/segment.go", "\tcase !slices.Equal(checkIndex, items):\n\t\treturn index.ErrCorrupted", "\tcase len(items) < len(checkIndex) || !slices.Equal(checkIndex, items[:len(checkIndex)]):\n\t\treturn index.ErrCorrupted", "Check ignores extra index items")
mut("M37-recover-keeps-bad-index", ["C07", "C05"], "pkg/segment/segment.go", "\tcase errors.Is(err, index.ErrCorrupted):\n\t\tcorruptedIndex = true", "\tcase errors.Is(err, index.ErrCorrupted):\n\t\tcorruptedIndex = len(restoreIndex) > 2", "Recover leaves a corrupt index of a small segment in place")
mut("M38-batch-visible-per-message", ["C08"], "log_writer.go", "\t\tindexTime = items[i].Timestamp\n\t}\n", "\t\tindexTime = items[i].Timestamp\n\t\tw.index.append(items[i : i+1])\n\t}\n\titems = nil\n", "every message of a batch becomes visible on its own")
mut("M39-writer-swap-outside-lock", ["C08"], "log.go", "\t\tl.readers[len(l.readers)-1] = oldReader\n\t\tl.writer = newWriter\n\t\tl.readers = append(l.readers, newWriter.reader)\n\n\t\tl.readersMu.Unlock()", "\t\tl.readers[len(l.readers)-1] = oldReader\n\t\tl.readersMu.Unlock()\n\t\tverifhook.Pause(\"publish.rollover.after-swap\")\n\t\tl.readersMu.Lock()\n\t\tl.writer = newWriter\n\t\tl.readers = append(l.readers, newWriter.reader)\n\n\t\tl.readersMu.Unlock()", "rollover publishes the old reader and the new head in two steps")
mut("M40-no-segment-changed-check", ["C08"], "log_writer.go", "\tif len(rs.SurviveOffsets)+len(rs.DeletedMessages) != w.index.Len() {", "\tif false && len(rs.SurviveOffsets)+len(rs.DeletedMessages) != w.index.Len() {", "head delete does not re-validate that the segment is unchanged")
mut("M41-gc-closes-inuse", ["C08"], "log_reader.go", "\tif r.messages == nil || r.messagesInuse.Load() > 0 {\n\t\treturn nil\n\t}\n\n\tif err := r.messages.Close(); err != nil {\n\t\treturn err\n\t}\n\tr.messages = nil\n\treturn nil\n}\n\nfunc (r *reader) Close() error {", "\tif r.messages == nil {\n\t\treturn nil\n\t}\n\n\tif err := r.messages.Close(); err != nil {\n\t\treturn err\n\t}\n\tr.messages = nil\n\treturn nil\n}\n\nfunc (r *reader) Close() error {", "GC unmaps a segment that a Consume is reading")

ALL = ["C%02d" % i for i in range(1, 21)]
mut("B01-benign-always-sync", ALL, "log.go", "\tif l.opts.AutoSync {\n\t\tif err := l.writer.Sync(); err != nil {", "\tif l.opts.AutoSync || len(msgs) > 2 {\n\t\tif err := l.writer.Sync(); err != nil {", "BENIGN: extra fsync after larger batches", control=True)
mut("B02-benign-consume-caps-16", ALL, "log_reader.go", "\tmsgs, err := messages.Consume(position, maxPosition, maxCount)", "\tif maxCount > 16 {\n\t\tmaxCount = 16\n\t}\n\tmsgs, err := messages.Consume(position, maxPosition, maxCount)", "BENIGN: Consume returns at most 16 messages per call (allowed: 'at most maxCount')", control=True)
mut("B03-benign-rollover-ge", ALL, "log_writer.go", "return w.index.Len() > 0 && w.messages.Size() > rollover", "return w.index.Len() > 0 && w.messages.Size() >= rollover", "BENIGN: rollover at >= instead of >", control=True)
mut("B04-benign-backup-always-copies", ALL, "pkg/segment/utils.go", "\t\tcase stat.Size() == dstStat.Size() && stat.ModTime().Equal(dstStat.ModTime()):", "\t\tcase false && stat.Size() == dstStat.Size() && stat.ModTime().Equal(dstStat.ModTime()):", "BENIGN: backup always re-copies", control=True)
mut("B05-benign-gc-keeps-messages", ALL, "log_reader.go", "\tr.closeIndex()\n\tverifhook.Pause(\"reader.gc.after-index-drop\")\n\n\tr.messagesMu.Lock()\n\tdefer r.messagesMu.Unlock()\n\n\tif r.messages == nil || r.messagesInuse.Load() > 0 {", "\tr.closeIndex()\n\tverifhook.Pause(\"reader.gc.after-index-drop\")\n\n\tr.messagesMu.Lock()\n\tdefer r.messagesMu.Unlock()\n\n\tif true || r.messages == nil || r.messagesInuse.Load() > 0 {", "BENIGN: GC drops indexes but keeps message files mapped", control=True)
mut("B06-benign-delete-one-segment-first-three", ALL, "pkg/segment/segment.go", "\t\tif _, ok := dropOffsets[msg.Offset]; ok {\n\t\t\tdst.DeletedMessages", "\t\tif _, ok := dropOffsets[msg.Offset]; ok && len(dst.DeletedMessages) < 3 {\n\t\t\tdst.DeletedMessages", "BENIGN?: a single Delete removes at most three messages (allowed: 'does not guarantee that it will delete all'); the Multi helpers loop", control=True)

def apply_special(m, root):
    if m["id"] == "M17-v2-swap-fields":
        p = os.path.join(root, m["file"]); s = open(p).read()
        a = "\tbinary.BigEndian.PutUint64(w.buff[4:], uint64(m.Offset))\n\tbinary.BigEndian.PutUint64(w.buff[12:], uint64(m.Time.UnixMicro()))"
        b = "\tbinary.BigEndian.PutUint64(w.buff[12:], uint64(m.Offset))\n\tbinary.BigEndian.PutUint64(w.buff[4:], uint64(m.Time.UnixMicro()))"
        c = "\tmsg.Offset = int64(binary.BigEndian.Uint64(headerBytes[4:]))\n\tmsg.Time = time.UnixMicro(int64(binary.BigEndian.Uint64(headerBytes[12:]))).UTC()"
        d = "\tmsg.Offset = int64(binary.BigEndian.Uint64(headerBytes[12:]))\n\tmsg.Time = time.UnixMicro(int64(binary.BigEndian.Uint64(headerBytes[4:]))).UTC()"
        assert a in s and c in s
        open(p, "w").write(s.replace(a, b).replace(c, d))
        return True
    return False

def sh(cmd, cwd=None, env=None, timeout=None):
    p = subprocess.run(cmd, cwd=cwd, env=env or ENVGO, stdout=subprocess.PIPE, stderr=subprocess.STDOUT, text=True, timeout=timeout)
    return p.returncode, p.stdout

def main():
    ids = [a for a in sys.argv[1:] if not a.startswith("--")]
    suite_only = "--suite-only" in sys.argv
    if os.path.isdir(WT):
        sh(["git", "-C", "/repo", "worktree", "remove", "--force", WT])
    rc, out = sh(["git", "-C", "/repo", "worktree", "add", "--detach", WT, "HEAD"])
    if rc != 0:
        print(out); return 1
    results = []
    try:
        for m in M:
            if ids and not any(m["id"].startswith(i) for i in ids):
                continue
            sh(["git", "checkout", "--", "."], cwd=WT)
            if not apply_special(m, WT):
                p = os.path.join(WT, m["file"]); s = open(p).read()
                if m["old"] not in s:
                    print("%s: pattern not found" % m["id"]); continue
                open(p, "w").write(s.replace(m["old"], m["new"], 1))
            rc, out = sh(["go1.26.8", "build", "./..."], cwd=WT)
            if rc != 0:
                print("%s: does not build\n%s" % (m["id"], out[-600:])); continue
            src, sout = sh(["go1.26.8", "test", "-count=1", "./..."], cwd=WT, timeout=3000)
            fails = [l.strip() for l in sout.splitlines() if l.strip().startswith("--- FAIL:")]
            real = [f for f in fails if "TestConcurrent" not in f]
            suite = "suite-green" if (src == 0 or (fails and not real)) else "suite-RED(%s)" % ",".join(sorted({f.split()[2].split("/")[0] for f in real}))[:40]
            res = {}
            for pid in ([] if suite_only else m["props"]):
                env = dict(os.environ, VF_REPO=WT, VF_EVIDENCE_DIR="/dev/shm/mut-evidence", VF_REPLAY_DIR="/dev/shm/mut-replays")
                t0 = time.time()
                rc, out = sh(["python3", os.path.join(os.environ.get("VERIF_SNAP", "/verif"), "verif.py"), "check", pid, "--tier", "quick"], cwd=os.environ.get("VERIF_SNAP", "/verif"), env=env, timeout=3600)
                res[pid] = {0: "missed", 1: "CAUGHT", 2: "inconclusive"}.get(rc, "rc%d" % rc) + "(%ds)" % (time.time() - t0)
            line = "%-34s %-11s %s%s  -- %s" % (m["id"], suite, " ".join("%s:%s" % kv for kv in res.items()), "  [control: must stay green]" if m["control"] else "", m["note"])
            print(line, flush=True)
            results.append(dict(id=m["id"], suite=suite, results=res, note=m["note"], control=m["control"]))
    finally:
        sh(["git", "-C", "/repo", "worktree", "remove", "--force", WT])
        json.dump(results, open("/dev/shm/mutants-results.json", "w"), indent=1)
    return 0

if __name__ == "__main__":
    sys.exit(main())
