#!/bin/bash
# usage: tools/mut.sh <patch.diff | -e 'python-edit-snippet'> <check ids...>
# Applies a change to /repo (which must be clean), runs the quick checks, reverts. For sensitivity testing.
set -u
cd /verif
if [ -n "$(git -C /repo status --porcelain)" ]; then echo "/repo not clean"; exit 3; fi
src="$1"; shift
if [ "$src" = "-e" ]; then
  snippet="$1"; shift
  (cd /repo && python3 -c "$snippet") || { git -C /repo checkout -- .; echo "edit failed"; exit 3; }
else
  git -C /repo apply "$src" || { echo "patch does not apply"; exit 3; }
fi
(cd /repo && GOPROXY=off GOSUMDB=off GOTOOLCHAIN=local go1.26.8 build ./... ) || { git -C /repo checkout -- .; git -C /repo clean -fdq; echo "mutant does not build"; exit 3; }
if [ "${MUT_SUITE:-0}" = "1" ]; then
  (cd /repo && GOPROXY=off GOSUMDB=off GOTOOLCHAIN=local go1.26.8 test -count=1 ./... 2>&1 | tail -8)
fi
for id in "$@"; do
  out=$(VF_REPLAY_DIR=/dev/shm/mut-replays python3 verif.py check "$id" --tier quick 2>&1)
  rc=$?
  echo "== $id rc=$rc"
  echo "$out" | grep -E "^(VIOLATION|OK|INCONCLUSIVE|KNOWN)" | cut -c1-300 | head -5
  if [ "${MUT_V:-0}" = "1" ]; then echo "$out" | grep -E "^\[|^FAILING|^ +[0-9]+ \{" | head -40 | cut -c1-600; fi
done
git -C /repo checkout -- . ; git -C /repo clean -fdq
git -C /verif checkout -- evidence 2>/dev/null
exit 0
