#!/bin/bash
# background soak: every property at the quick tier at several seeds (use with `vp run --with-repo`); any line that is
# not OK/KNOWN-FINDING on the unchanged tree is a false alarm to investigate
cd "$(dirname "$0")/.."
export VF_REPO="${VP_RUN_REPO:-/repo}"
export VF_REPLAY_DIR="$PWD/replay-bg"
export VF_EVIDENCE_DIR="$PWD/evidence-bg"
for s in ${SOAK_SEEDS:-2 3 4 5 6 7 8 9}; do
  for id in C01 C02 C03 C04 C05 C06 C07 C08 C09 C10 C11 C12 C13 C14 C15 C16 C17 C18 C19 C20; do
    out=$(python3 verif.py check "$id" --tier quick --seed $s 2>&1)
    rc=$?
    echo "$out" | grep -E "^(OK|VIOLATION|INCONCLUSIVE)" | sort -u | cut -c1-200
    if [ $rc -ne 0 ]; then echo "!!! rc=$rc $id seed=$s"; echo "$out" | tail -40 | cut -c1-1200; fi
  done
done
