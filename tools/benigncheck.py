#!/usr/bin/env python3
"""Run every quick check against a change that is meant to keep all properties (false-alarm control).
usage: tools/benigncheck.py <worktree> <id>   (VERIF_SNAP=<copy of /verif> to run from a snapshot)
Stores /verif/benign/<id>/{patch.diff,BENIGN.md,meta.json}."""
import json, os, subprocess, sys, time, shutil
wt, bid = sys.argv[1], sys.argv[2]
SNAP = os.environ.get("VERIF_SNAP", "/verif")
ENVGO = dict(os.environ, GOPROXY="off", GOSUMDB="off", GOTOOLCHAIN="local")
def sh(cmd, cwd=wt, env=ENVGO, timeout=7200):
    p = subprocess.run(cmd, cwd=cwd, env=env, stdout=subprocess.PIPE, stderr=subprocess.STDOUT, text=True, timeout=timeout)
    return p.returncode, p.stdout
rc, diff = sh(["git", "diff", "HEAD", "--", ".", ":(exclude)BENIGN.md"])
if not diff.strip():
    print("no change"); sys.exit(2)
suite = []
for i in range(2):
    rc, out = sh(["go1.26.8", "test", "-count=1", "./..."])
    fails = [l.strip() for l in out.splitlines() if l.strip().startswith("--- FAIL:")]
    real = [f for f in fails if "TestConcurrent" not in f]
    suite.append("green" if rc == 0 else ("only-known-flaky" if fails and not real else "RED " + ",".join(real)[:200]))
rc, out = sh(["go1.26.8", "build", "-tags", "verif", "./..."])
print("suite:", suite, "verif build rc", rc, flush=True)
results = {}
for n in range(1, 21):
    pid = "C%02d" % n
    env = dict(os.environ, VF_REPO=wt, VF_EVIDENCE_DIR="/dev/shm/benign-evidence", VF_REPLAY_DIR="/dev/shm/benign-replays/" + bid)
    t0 = time.time()
    rc, out = sh(["python3", os.path.join(SNAP, "verif.py"), "check", pid, "--tier", "quick"], cwd=SNAP, env=env)
    results[pid] = {0: "quiet", 1: "ALARM", 2: "inconclusive"}.get(rc, "rc%d" % rc)
    if rc != 0:
        print("  %s %s: %s" % (pid, results[pid], [l[:300] for l in out.splitlines() if "VIOLATION" in l or l.startswith("[")][:3]), flush=True)
d = os.path.join("/verif/benign", bid); os.makedirs(d, exist_ok=True)
open(os.path.join(d, "patch.diff"), "w").write(diff)
if os.path.exists(os.path.join(wt, "BENIGN.md")):
    shutil.copy(os.path.join(wt, "BENIGN.md"), os.path.join(d, "BENIGN.md"))
json.dump(dict(id=bid, suite=suite, checks=results, source="independent sub-agent asked for a behaviour-preserving change (given all 20 property texts)"), open(os.path.join(d, "meta.json"), "w"), indent=1)
print(json.dumps(results))
