#!/bin/bash
# background sweep: every property at the thorough tier, one after another (use with `vp run --with-repo`)
cd "$(dirname "$0")/.."
export VF_REPO="${VP_RUN_REPO:-/repo}"
export VF_REPLAY_DIR="$PWD/replay-bg"
for id in ${@:-C08 C05 C06 C01 C02 C03 C04 C09 C10 C11 C12 C13 C14 C15 C16 C17 C18 C19 C20 C07}; do
  start=$(date +%s)
  out=$(VERIF_SEED=${VERIF_SEED:-7} python3 verif.py check "$id" --tier thorough 2>&1)
  rc=$?
  echo "=== $id rc=$rc $(( $(date +%s) - start ))s"
  echo "$out" | grep -E "^(OK|VIOLATION|INCONCLUSIVE|KNOWN)" | sort -u | cut -c1-300
  if [ $rc -ne 0 ]; then echo "$out" | tail -60 | cut -c1-1500; fi
done
