#!/usr/bin/env python3
"""Confirm a sub-agent's seeded change and run our checks against it.
usage: tools/seedcheck.py <worktree> <seed-id> <property> [more check ids...]
Confirms: suite green with the change (demo skipped), demo fails with the change and passes without it;
then runs the quick checks against VF_REPO=<worktree>; stores /verif/seeded/<seed-id>/{patch.diff,demo,meta.json}."""
import json, os, subprocess, sys, time, shutil, glob
wt, sid, prop = sys.argv[1], sys.argv[2], sys.argv[3]
checks = sys.argv[3:]
ENVGO = dict(os.environ, GOPROXY="off", GOSUMDB="off", GOTOOLCHAIN="local")
def sh(cmd, cwd=wt, env=ENVGO, timeout=3600):
    p = subprocess.run(cmd, cwd=cwd, env=env, stdout=subprocess.PIPE, stderr=subprocess.STDOUT, text=True, timeout=timeout)
    return p.returncode, p.stdout
ran = []
def note(cmd, rc, extra=""):
    ran.append(dict(cmd=cmd, rc=rc, note=extra)); print("  $ %s -> rc=%d %s" % (cmd, rc, extra), flush=True)
# the change (non-test files) and the demo
rc, diff = sh(["git", "diff", "HEAD", "--", ".", ":(exclude)*_test.go", ":(exclude)SEED.md"])
demos = [f for f in subprocess.run(["git", "ls-files", "--others", "--exclude-standard"], cwd=wt, stdout=subprocess.PIPE, text=True).stdout.split() if f.endswith("_test.go")]
if not diff.strip() or not demos:
    print("no change or no demo", demos); sys.exit(2)
demo = demos[0]
pkg = "./" + os.path.dirname(demo) if os.path.dirname(demo) else "."
tags = ["-tags", "verif"] if "go:build verif" in open(os.path.join(wt, demo)).read() else []
if os.environ.get("SEED_RACE"):
    tags = ["-race"] + tags  # the demonstration is a data race only the race detector shows
# 1 suite with change (demo skipped), twice
ok = True
for i in range(2):
    rc, out = sh(["go1.26.8", "test", "-count=1", "-skip", "TestSeedDemo", "./..."])
    fails = [l.strip() for l in out.splitlines() if l.strip().startswith("--- FAIL:")]
    # TestConcurrent/DeleteRollover is timing-dependent and fails on the untouched tree too when the machine is busy
    real = [f for f in fails if "TestConcurrent" not in f and "DeleteRollover" not in f]
    flaky = rc != 0 and fails and not real
    note("go test -count=1 -skip TestSeedDemo ./... (with change)", rc, "only the known timing-dependent TestConcurrent/DeleteRollover failed (busy machine)" if flaky else ""); ok = ok and (rc == 0 or flaky)
# 2 demo with change must fail
rc, out = sh(["go1.26.8", "test"] + tags + ["-count=1", "-run", "TestSeedDemo$", pkg])
note("go test %s -run TestSeedDemo %s (with change)" % (" ".join(tags), pkg), rc, "expected to fail"); ok = ok and rc != 0
demo_fail_tail = out[-1500:]
# 3 demo without change must pass
changed = [l[6:] for l in diff.splitlines() if l.startswith("+++ b/")]
# (never git stash: the stash is shared between worktrees)
pf = "/dev/shm/seedcheck-%s.patch" % sid
open(pf, "w").write(diff)
rcr, outr = sh(["git", "apply", "-R", pf])
rc, out = sh(["go1.26.8", "test"] + tags + ["-count=1", "-run", "TestSeedDemo$", pkg])
note("go test %s -run TestSeedDemo %s (without change)" % (" ".join(tags), pkg), rc, "expected to pass"); ok = ok and rc == 0 and rcr == 0
sh(["git", "apply", pf])
print("confirmed" if ok else "NOT CONFIRMED")
results = {}
if ok:
    for pid in checks:
        env = dict(os.environ, VF_REPO=wt, VF_EVIDENCE_DIR="/dev/shm/seed-evidence", VF_REPLAY_DIR="/dev/shm/seed-replays/" + sid)
        t0 = time.time()
        rc, out = sh(["python3", os.path.join(os.environ.get("VERIF_SNAP", "/verif"), "verif.py"), "check", pid, "--tier", os.environ.get("SEED_TIER", "quick")], cwd=os.environ.get("VERIF_SNAP", "/verif"), env=env)
        results[pid] = {0: "missed", 1: "caught", 2: "inconclusive"}.get(rc, "rc%d" % rc)
        viol = [l for l in out.splitlines() if l.startswith("[") or "VIOLATION" in l][:3]
        note("VF_REPO=%s python3 verif.py check %s --tier quick" % (wt, pid), rc, results[pid] + " in %ds" % (time.time() - t0))
        for v in viol: print("     " + v[:300])
d = os.path.join("/verif/seeded", sid); os.makedirs(d, exist_ok=True)
open(os.path.join(d, "patch.diff"), "w").write(diff)
shutil.copy(os.path.join(wt, demo), os.path.join(d, os.path.basename(demo) + ".txt"))
seedmd = os.path.join(wt, "SEED.md")
if os.path.exists(seedmd): shutil.copy(seedmd, os.path.join(d, "SEED.md"))
meta = dict(seed=sid, property=prop, source="independent sub-agent given only the property text and a scratch worktree", demo_file=demo, demo_build_tags=tags,
            confirmed=ok, needs="see SEED.md", ran=ran, checks=results, demo_failure_tail=demo_fail_tail[-600:])
json.dump(meta, open(os.path.join(d, "meta.json"), "w"), indent=1)
print(json.dumps(results))
