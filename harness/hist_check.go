package vf

import (
	"bytes"
	"errors"
	"fmt"
	"math"
	"sort"
	"time"

	"github.com/klev-dev/klevdb"
)

// obsTags says under which oracle tag each part of an observation fails; "" skips that part.
type obsTags struct{ next, scan, consume, get, key, time, stat string }

var maxCounts = []int64{1, 2, 3, 5, 8, 40}

func (e *Env) mc(i int64) int64 {
	return maxCounts[int((int64(e.Step)*7+i*3)%int64(len(maxCounts)))]
}

// observe compares every query of handle l with the model, all failures reported under one tag.
func (e *Env) observe(l klevdb.Log, dir, tag, what string) {
	if tag == "" {
		return
	}
	e.observeWith(l, dir, obsTags{tag, tag, tag, tag, tag, tag, tag}, what)
}

// CheckAll is the invariant run after every step on the main handle: only owned oracles can fail.
// MaybeCheck runs the invariant unless this case observes only every n-th step.
func (e *Env) MaybeCheck() {
	if e.Cfg.CheckEvery > 1 && e.Step%e.Cfg.CheckEvery != 0 {
		e.St.Inc("invariant_skipped_lazy")
		return
	}
	e.CheckAll()
}

func (e *Env) CheckAll() {
	e.observeWith(e.L, e.Dir, e.ownTags(), "log")
}

// ownTags: the parts of an observation this profile's property owns.
func (e *Env) ownTags() obsTags {
	t := obsTags{}
	if e.own("next") {
		t.next = "next"
	}
	if e.own("scan") {
		t.scan = "scan"
	}
	if e.own("consume") {
		t.consume = "consume"
	}
	if e.own("get") {
		t.get = "get"
	}
	if e.own("key") {
		t.key = "key"
	}
	if e.own("time") {
		t.time = "time"
	}
	if e.own("stat") {
		t.stat = "stat"
	}
	return t
}

func (e *Env) scan(l klevdb.Log, tag, what string) []klevdb.Message {
	var got []klevdb.Message
	off := klevdb.OffsetOldest
	for iter := int64(0); ; iter++ {
		if iter > 100000 {
			e.failf(tag, "%s: scan from OffsetOldest does not terminate", what)
		}
		no, msgs, err := l.Consume(off, e.mc(iter))
		if err != nil {
			e.failf(tag, "%s: scan Consume(%d) failed: %v", what, off, err)
		}
		got = append(got, msgs...)
		if len(msgs) == 0 && (no == off || off < 0) && no == e.M.Next {
			break
		}
		if len(msgs) == 0 && no == off {
			e.failf(tag, "%s: scan stuck at %d (NextOffset %d)", what, off, e.M.Next)
		}
		if off >= 0 && no < off {
			e.failf(tag, "%s: scan went backwards: Consume(%d) -> %d", what, off, no)
		}
		if no > e.M.Next {
			e.failf(tag, "%s: scan passed NextOffset: Consume(%d) -> %d > %d", what, off, no, e.M.Next)
		}
		off = no
	}
	return got
}

func (e *Env) scanCheck(l klevdb.Log, tag, what string) {
	got := e.scan(l, tag, what)
	if len(got) != len(e.M.Live) {
		e.failf(tag, "%s: reading from the oldest offset yields %d messages %v, want %d %v", what, len(got), msgOffsets(got), len(e.M.Live), e.M.Offsets())
	}
	for i := range got {
		if !e.M.Live[i].Eq(got[i]) {
			e.failf(tag, "%s: message %d differs: got %+v, published %+v", what, i, FromMessage(got[i]), e.M.Live[i])
		}
		if i > 0 && got[i].Offset <= got[i-1].Offset {
			e.failf(tag, "%s: offsets not strictly increasing at %d", what, i)
		}
		// "the same message": a missing key or value is handed out in one way (nil or empty), whichever reader,
		// format version or rewrite the message has been through - callers (the typed wrappers) tell them apart
		if e.rep == nil {
			continue
		}
		rep := uint8(1)
		if got[i].Key == nil {
			rep |= 2
		}
		if got[i].Value == nil {
			rep |= 4
		}
		if old, ok := e.rep[got[i].Offset]; ok && old != rep {
			e.failf(tag, "%s: message %d (key len %d, value len %d) was first returned with key nil=%v value nil=%v, now key nil=%v value nil=%v", what,
				got[i].Offset, len(got[i].Key), len(got[i].Value), old&2 != 0, old&4 != 0, rep&2 != 0, rep&4 != 0)
		}
		e.rep[got[i].Offset] = rep
	}
}

func (e *Env) observeWith(l klevdb.Log, dir string, t obsTags, what string) {
	m := e.M
	parts := []func(){
		func() {
			if t.next != "" {
				next, err := l.NextOffset()
				if err != nil || next != m.Next {
					e.failf(t.next, "%s: NextOffset=%d,%v want %d", what, next, err, m.Next)
				}
			}
		},
		func() {
			if t.scan != "" {
				e.scanCheck(l, t.scan, what)
				e.St.Inc("scans")
			}
		},
		func() {
			if t.consume != "" {
				e.consumeSweep(l, t.consume, what)
			}
		},
		func() {
			if t.get != "" {
				e.getSweep(l, t.get, what)
			}
		},
		func() {
			if t.key != "" {
				e.keySweep(l, t.key, what)
			}
		},
		func() {
			if t.time != "" {
				e.timeSweep(l, t.time, what)
			}
		},
		func() {
			if t.stat != "" {
				st, err := l.Stat()
				if err != nil {
					e.failf(t.stat, "%s: Stat failed: %v", what, err)
				}
				if st.Messages != len(m.Live) {
					e.failf(t.stat, "%s: Stat.Messages=%d, live messages %d", what, st.Messages, len(m.Live))
				}
				if dir != "" {
					e.checkStat(t.stat, st, dir, what+" Stat")
				}
				e.St.Inc("stats")
			}
		},
	}
	// the first call on a fresh or lazy handle matters (it is the one that loads what is not loaded yet):
	// rotate which part of the observation goes first
	r := e.Step % len(parts)
	for i := range parts {
		parts[(i+r)%len(parts)]()
	}
}

func (e *Env) consumeSweep(l klevdb.Log, tag, what string) {
	m := e.M
	// iteration law
	e.scanCheck(l, tag, what)
	sweepMax := []int64{0}
	if thoroughTier() && e.Step%4 == 0 {
		sweepMax = maxCounts
	}
	holes := false
	for _, fixed := range sweepMax {
		for o := int64(-5); o <= m.Next+2; o++ {
			max := fixed
			if max == 0 {
				max = e.mc(o + 5)
			}
			if e.consumeOne(l, tag, what, o, max) {
				holes = true
			}
		}
	}
	if holes {
		e.flag("sweep-holes")
	}
	// far beyond NextOffset: "an offset beyond NextOffset fails with ErrInvalidOffset", whatever its size
	for _, o := range farOffsets(m.Next, e.Step) {
		no, msgs, err := l.Consume(o, e.mc(o%1000))
		e.St.Inc("consume_far_calls")
		if !errors.Is(err, klevdb.ErrInvalidOffset) || len(msgs) != 0 {
			e.failf(tag, "%s: Consume(%d) far beyond NextOffset=%d returned %d,%v,%v want ErrInvalidOffset", what, o, m.Next, no, msgOffsets(msgs), err)
		}
	}
}

// consumeOne checks one Consume call against the model; it reports whether the offset fell into a hole.
func (e *Env) consumeOne(l klevdb.Log, tag, what string, o, max int64) (holes bool) {
	m := e.M
	no, msgs, err := l.Consume(o, max)
	e.St.Inc("consume_calls")
	if o > m.Next {
		if !errors.Is(err, klevdb.ErrInvalidOffset) {
			e.failf(tag, "%s: Consume(%d) beyond NextOffset=%d returned %d,%v, want ErrInvalidOffset", what, o, m.Next, no, err)
		}
		return holes
	}
	if o < -2 {
		// offsets below the two relative constants are not covered by the property beyond "no wrong data":
		// whatever is returned must be a run of live messages
		if err != nil {
			return holes
		}
	}
	if err != nil {
		e.failf(tag, "%s: Consume(%d,%d) failed: %v", what, o, max, err)
	}
	if o == klevdb.OffsetNewest {
		if no != m.Next || len(msgs) != 0 {
			e.failf(tag, "%s: Consume(OffsetNewest) -> %d with %d messages, want %d and none", what, no, len(msgs), m.Next)
		}
		return holes
	}
	i := m.Idx(o)
	if o == klevdb.OffsetOldest || o < 0 {
		i = 0
	}
	if i < len(m.Live) && m.Live[i].Off != o && o >= 0 {
		holes = true
	}
	if len(msgs) > 0 {
		if int64(len(msgs)) > max {
			e.failf(tag, "%s: Consume(%d,%d) returned %d messages", what, o, max, len(msgs))
		}
		for j := range msgs {
			if i+j >= len(m.Live) || !m.Live[i+j].Eq(msgs[j]) {
				e.failf(tag, "%s: Consume(%d,%d) message %d is %+v; live run from there is %v", what, o, max, j, FromMessage(msgs[j]), offsFrom(m, i, len(msgs)))
			}
		}
		if no != msgs[len(msgs)-1].Offset+1 {
			e.failf(tag, "%s: Consume(%d,%d) next offset %d != last returned %d + 1", what, o, max, no, msgs[len(msgs)-1].Offset)
		}
	} else {
		if i < len(m.Live) && m.Live[i].Off < no {
			e.failf(tag, "%s: Consume(%d,%d) returned nothing and next offset %d steps over live message %d", what, o, max, no, m.Live[i].Off)
		}
		if o >= 0 && no < o {
			e.failf(tag, "%s: Consume(%d) next offset %d went backwards", what, o, no)
		}
		if i >= len(m.Live) && no != m.Next {
			e.failf(tag, "%s: Consume(%d) is caught up but next offset is %d, want NextOffset %d", what, o, no, m.Next)
		}
		if no > m.Next {
			e.failf(tag, "%s: Consume(%d) next offset %d beyond NextOffset %d", what, o, no, m.Next)
		}
	}
	return holes
}

// farOffsets are unassigned offsets well away from NextOffset, up to the largest int64.
func farOffsets(next int64, step int) []int64 {
	return []int64{next + 3 + int64(step%61), next + 1<<20, 1<<31 - 1 + int64(step%3), 1<<32 + next, 1 << 53, math.MaxInt64 - 1 - int64(step%2), math.MaxInt64}
}

func offsFrom(m *Model, i, n int) []int64 {
	var out []int64
	for j := i; j < len(m.Live) && j < i+n; j++ {
		out = append(out, m.Live[j].Off)
	}
	return out
}

func (e *Env) getSweep(l klevdb.Log, tag, what string) {
	m := e.M
	for o := int64(0); o <= m.Next+2; o++ {
		e.getOne(l, tag, what, o)
	}
	for _, o := range farOffsets(m.Next, e.Step) {
		g, err := l.Get(o)
		e.St.Inc("get_far_calls")
		if !errors.Is(err, klevdb.ErrInvalidOffset) {
			e.failf(tag, "%s: Get(%d) of an unassigned offset (NextOffset %d) returned %+v,%v, want ErrInvalidOffset", what, o, m.Next, FromMessage(g), err)
		}
	}
	for _, rel := range []int64{klevdb.OffsetOldest, klevdb.OffsetNewest} {
		g, err := l.Get(rel)
		if len(m.Live) == 0 {
			if !errors.Is(err, klevdb.ErrInvalidOffset) {
				e.failf(tag, "%s: Get(%d) on a log without live messages returned %v, want ErrInvalidOffset", what, rel, err)
			}
			continue
		}
		want := m.Live[0]
		if rel == klevdb.OffsetNewest {
			want = m.Live[len(m.Live)-1]
		}
		if err != nil || !want.Eq(g) {
			e.failf(tag, "%s: Get(%d) returned %+v,%v want %+v", what, rel, FromMessage(g), err, want)
		}
	}
}

// getOne checks one Get call (and the Consume that must agree with it) against the model.
func (e *Env) getOne(l klevdb.Log, tag, what string, o int64) {
	m := e.M
	g, err := l.Get(o)
	e.St.Inc("get_calls")
	x, live := m.Find(o)
	switch {
	case live:
		if err != nil || !x.Eq(g) {
			e.failf(tag, "%s: Get(%d) of a live message returned %+v,%v want %+v", what, o, FromMessage(g), err, x)
		}
	case o < m.Next:
		if !errors.Is(err, klevdb.ErrNotFound) {
			e.failf(tag, "%s: Get(%d) of a deleted message (NextOffset %d) returned %v, want ErrNotFound", what, o, m.Next, err)
		}
		e.flag("get-deleted")
	default:
		if !errors.Is(err, klevdb.ErrInvalidOffset) {
			e.failf(tag, "%s: Get(%d) of an unassigned offset (NextOffset %d) returned %v, want ErrInvalidOffset", what, o, m.Next, err)
		}
	}
	// agreement with Consume
	no, msgs, cerr := l.Consume(o, 1)
	if o <= m.Next {
		if cerr != nil {
			e.failf(tag, "%s: Consume(%d,1) failed: %v", what, o, cerr)
		}
		if live {
			if len(msgs) != 1 || msgs[0].Offset != o || !x.Eq(msgs[0]) {
				e.failf(tag, "%s: Get(%d) is live but Consume(%d,1) returned %v next %d", what, o, o, msgOffsets(msgs), no)
			}
		} else if len(msgs) > 0 && msgs[0].Offset <= o {
			e.failf(tag, "%s: Get(%d) says not found but Consume returned offset %d", what, o, msgs[0].Offset)
		}
	}
}

// applyProbe: a single read at one offset, between two other operations and without the sweeps around it. A sweep
// visits every offset in ascending order and so leaves (and then repairs) whatever position state a handle keeps
// between calls; a lone call after a publish, a rollover or a delete sees that state as the last operation left it.
func (e *Env) applyProbe(op Op) {
	m := e.M
	sel, r := op.N%4, op.N/4
	var o int64
	switch {
	case sel == 0 && len(m.Live) > 0:
		o = m.Live[int(r)%len(m.Live)].Off
	case sel == 1:
		o = m.Next - r%4
		if o < 0 {
			o = 0
		}
	case sel == 2:
		o = m.Next + r%3
	case len(m.Live) > 0:
		o = m.Live[int(r)%len(m.Live)].Off + 1
	default:
		o = m.Next
	}
	e.St.Inc("probe_calls")
	if op.Variant%3 == 2 {
		// a lone time lookup, under the same conditions as the time sweep
		if e.own("time") && e.Cfg.TimeIndex && m.Mono {
			if c := e.timeCandidates(); len(c) > 0 {
				e.timeOne(e.L, "time", "probe", c[int(r)%len(c)])
			}
		} else {
			_, _ = e.L.GetByTime(time.UnixMicro(r))
		}
		return
	}
	if op.Variant%3 == 0 {
		if e.own("consume") {
			e.consumeOne(e.L, "consume", "probe", o, e.mc(r))
		} else {
			_, _, _ = e.L.Consume(o, e.mc(r))
		}
	} else {
		if e.own("get") {
			e.getOne(e.L, "get", "probe", o)
		} else {
			_, _ = e.L.Get(o)
		}
	}
}

func (e *Env) keyUniverse() [][]byte {
	ks := append([][]byte{}, KeyUniverse...)
	ks = append(ks, []byte("zz-absent"))
	if e.Cfg.LongKeys {
		ks = append(ks, longKeys...)
	}
	ks = append(ks, CollidingAbsent...)
	return ks
}

func (e *Env) keySweep(l klevdb.Log, tag, what string) {
	m := e.M
	for ki, k := range e.keyUniverse() {
		g, err := l.GetByKey(k)
		o, oerr := l.OffsetByKey(k)
		e.St.Inc("key_lookups")
		if !e.Cfg.KeyIndex {
			if !errors.Is(err, klevdb.ErrNoIndex) || !errors.Is(oerr, klevdb.ErrNoIndex) {
				e.failf(tag, "%s: GetByKey/OffsetByKey without key index returned %v / %v, want ErrNoIndex", what, err, oerr)
			}
			if _, _, cerr := l.ConsumeByKey(k, klevdb.OffsetOldest, 1); !errors.Is(cerr, klevdb.ErrNoIndex) {
				e.failf(tag, "%s: ConsumeByKey without key index returned %v, want ErrNoIndex", what, cerr)
			}
			continue
		}
		want, ok := m.LastWithKey(k)
		all := m.WithKey(k)
		if !ok {
			if !errors.Is(err, klevdb.ErrNotFound) || !errors.Is(oerr, klevdb.ErrNotFound) {
				e.failf(tag, "%s: GetByKey(%s) of an absent key returned %+v,%v / %d,%v want ErrNotFound", what, hexs(k), FromMessage(g), err, o, oerr)
			}
		} else {
			if err != nil || !want.Eq(g) {
				e.failf(tag, "%s: GetByKey(%s) returned %+v,%v want %+v", what, hexs(k), FromMessage(g), err, want)
			}
			if oerr != nil || o != want.Off {
				e.failf(tag, "%s: OffsetByKey(%s) returned %d,%v want %d", what, hexs(k), o, oerr, want.Off)
			}
		}
		e.classifyKey(k, ok)
		// iteration from the oldest offset
		var gotk []klevdb.Message
		off := klevdb.OffsetOldest
		for iter := 0; ; iter++ {
			if iter > 10000 {
				e.failf(tag, "%s: ConsumeByKey(%s) iteration does not terminate", what, hexs(k))
			}
			max := int64(1 + (e.Step+iter+ki)%4)
			no, msgs, err := l.ConsumeByKey(k, off, max)
			if err != nil {
				e.failf(tag, "%s: ConsumeByKey(%s,%d) failed: %v", what, hexs(k), off, err)
			}
			if int64(len(msgs)) > max {
				e.failf(tag, "%s: ConsumeByKey(%s,%d,%d) returned %d messages", what, hexs(k), off, max, len(msgs))
			}
			gotk = append(gotk, msgs...)
			if len(msgs) == 0 {
				if no != m.Next {
					e.failf(tag, "%s: ConsumeByKey(%s,%d) ended at %d, want NextOffset %d", what, hexs(k), off, no, m.Next)
				}
				break
			}
			if no != msgs[len(msgs)-1].Offset+1 {
				e.failf(tag, "%s: ConsumeByKey(%s,%d) next offset %d != last+1", what, hexs(k), off, no)
			}
			off = no
		}
		if len(gotk) != len(all) {
			e.failf(tag, "%s: ConsumeByKey(%s) iteration returned offsets %v, live messages with that key %v", what, hexs(k), msgOffsets(gotk), offsOf(all))
		}
		for i := range all {
			if !all[i].Eq(gotk[i]) {
				e.failf(tag, "%s: ConsumeByKey(%s) message %d is %+v want %+v", what, hexs(k), i, FromMessage(gotk[i]), all[i])
			}
		}
		// a cursor beyond NextOffset
		if ki%4 == e.Step%4 {
			for _, c := range append(farOffsets(m.Next, e.Step), m.Next+1, m.Next+2) {
				no, msgs, err := l.ConsumeByKey(k, c, 2)
				e.St.Inc("consumebykey_far_calls")
				// C09 does not say how such a cursor is answered (the code answers "caught up": NextOffset, nothing);
				// what it may never do is return a message or a next offset other than NextOffset
				if len(msgs) != 0 || !(errors.Is(err, klevdb.ErrInvalidOffset) || (err == nil && no == m.Next)) {
					e.failf(tag, "%s: ConsumeByKey(%s,%d) beyond NextOffset=%d returned %d,%v,%v want nothing and NextOffset (or ErrInvalidOffset)", what, hexs(k), c, m.Next, no, msgOffsets(msgs), err)
				}
			}
		}
		// from every cursor offset: a prefix of the remaining matches
		cstep := int64(1)
		if len(k) > 1024 {
			// hashing a very long key costs more than the lookup: a handful of cursors
			cstep = 1 + m.Next/5
		}
		for c := int64(0); c <= m.Next; c += cstep {
			max := int64(1 + (int(c)+e.Step)%3)
			no, msgs, err := l.ConsumeByKey(k, c, max)
			if err != nil {
				e.failf(tag, "%s: ConsumeByKey(%s,%d) failed: %v", what, hexs(k), c, err)
			}
			var rem []Msg
			for _, x := range all {
				if x.Off >= c {
					rem = append(rem, x)
				}
			}
			if len(msgs) > len(rem) || int64(len(msgs)) > max {
				e.failf(tag, "%s: ConsumeByKey(%s,%d,%d) returned %v, remaining matches %v", what, hexs(k), c, max, msgOffsets(msgs), offsOf(rem))
			}
			for i := range msgs {
				if !rem[i].Eq(msgs[i]) {
					e.failf(tag, "%s: ConsumeByKey(%s,%d,%d) returned %v, remaining matches %v", what, hexs(k), c, max, msgOffsets(msgs), offsOf(rem))
				}
			}
			if len(msgs) == 0 {
				if len(rem) > 0 && rem[0].Off < no {
					e.failf(tag, "%s: ConsumeByKey(%s,%d) returned nothing and next %d steps over match %d", what, hexs(k), c, no, rem[0].Off)
				}
				if len(rem) == 0 && no != m.Next {
					e.failf(tag, "%s: ConsumeByKey(%s,%d) has no remaining match but next is %d, want %d", what, hexs(k), c, no, m.Next)
				}
			} else if no != msgs[len(msgs)-1].Offset+1 {
				e.failf(tag, "%s: ConsumeByKey(%s,%d) next offset %d != last+1", what, hexs(k), c, no)
			}
		}
	}
}

func offsOf(ms []Msg) []int64 {
	out := make([]int64, len(ms))
	for i, x := range ms {
		out[i] = x.Off
	}
	return out
}

// classifyKey marks lookups where a different key with the same hash is live (evidence only).
func (e *Env) classifyKey(k []byte, present bool) {
	if len(k) > 1024 {
		return
	}
	h := RefFNV1a64(k)
	for _, x := range e.M.Live {
		if len(x.K) <= 1024 && !bytes.Equal(x.K, k) && RefFNV1a64(x.K) == h {
			e.flag("key-collision-live")
			e.St.Inc("lookups_with_live_collision")
			return
		}
	}
}

func (e *Env) timeCandidates() []int64 {
	set := map[int64]struct{}{}
	add := func(t int64) {
		set[t-1] = struct{}{}
		set[t] = struct{}{}
		set[t+1] = struct{}{}
	}
	for _, x := range e.M.Live {
		add(x.TS)
	}
	if e.M.Any {
		add(e.M.MinT)
		add(e.M.MaxT)
		// dense sweep when the range is small (1 µs steps, as the property quantifies)
		if e.M.MaxT-e.M.MinT <= 400 {
			for t := e.M.MinT - 1; t <= e.M.MaxT+1; t++ {
				set[t] = struct{}{}
			}
		}
	} else {
		add(5)
	}
	// far away on both sides (the zero time.Time, and values near the ends of the int64 microsecond range)
	for _, t := range []int64{time.Time{}.UnixMicro(), -(1 << 60), -1 << 31, 1 << 31, 1 << 60, e.M.MaxT + 1<<40} {
		set[t] = struct{}{}
	}
	out := make([]int64, 0, len(set))
	for t := range set {
		out = append(out, t)
	}
	sort.Slice(out, func(i, j int) bool { return out[i] < out[j] })
	return out
}

func (e *Env) timeSweep(l klevdb.Log, tag, what string) {
	m := e.M
	if !e.Cfg.TimeIndex {
		_, err := l.GetByTime(time.UnixMicro(5))
		_, _, oerr := l.OffsetByTime(time.UnixMicro(5))
		if !errors.Is(err, klevdb.ErrNoIndex) || !errors.Is(oerr, klevdb.ErrNoIndex) {
			e.failf(tag, "%s: GetByTime/OffsetByTime without time index returned %v / %v, want ErrNoIndex", what, err, oerr)
		}
		return
	}
	if !m.Mono {
		return
	}
	for _, q := range e.timeCandidates() {
		e.timeOne(l, tag, what, q)
	}
}

// timeOne checks one GetByTime/OffsetByTime pair against the model (time index on, monotone times).
func (e *Env) timeOne(l klevdb.Log, tag, what string, q int64) {
	m := e.M
	g, err := l.GetByTime(time.UnixMicro(q))
	o, ot, oerr := l.OffsetByTime(time.UnixMicro(q))
	e.St.Inc("time_lookups")
	want, ok := m.FirstAtOrAfterTime(q)
	if !ok {
		if len(m.Live) == 0 {
			if !(errors.Is(err, klevdb.ErrNotFound) || errors.Is(err, klevdb.ErrInvalidOffset)) || !(errors.Is(oerr, klevdb.ErrNotFound) || errors.Is(oerr, klevdb.ErrInvalidOffset)) {
				e.failf(tag, "%s: GetByTime(%d) without live messages returned %v / %v", what, q, err, oerr)
			}
		} else if !errors.Is(err, klevdb.ErrNotFound) || !errors.Is(oerr, klevdb.ErrNotFound) {
			e.failf(tag, "%s: GetByTime(%d) after every live message returned offset %d,%v / %d,%v want ErrNotFound", what, q, g.Offset, err, o, oerr)
		}
		return
	}
	if err != nil || !want.Eq(g) {
		e.failf(tag, "%s: GetByTime(%d) returned offset %d (time %d),%v want offset %d (time %d)", what, q, g.Offset, g.Time.UnixMicro(), err, want.Off, want.TS)
	}
	if oerr != nil || o != want.Off || ot.UnixMicro() != want.TS {
		e.failf(tag, "%s: OffsetByTime(%d) returned %d,%d,%v want %d,%d", what, q, o, ot.UnixMicro(), oerr, want.Off, want.TS)
	}
	// class: the answer's timestamp also occurs on an earlier live message? then it must be the first of the run
	i := m.Idx(want.Off)
	if i > 0 && m.Live[i-1].TS == want.TS {
		e.failf(tag, "model error: not first of run")
	}
	if i+1 < len(m.Live) && m.Live[i+1].TS == want.TS {
		e.flag("time-equal-run")
	}
}

// ---------------------------------------------------------------------------------------------
// trims (C15)

func (e *Env) applyTrim(op Op) {
	ctx, noBackoff, cancel := backoffFor(op.FailAt)
	defer cancel()
	// the time bound of the age variants, with the case's nanoseconds below the microsecond: a bound between two
	// representable message times selects what its microsecond selects
	ageBound := func(us int64) time.Time {
		return time.UnixMicro(e.absTS(us)).Add(time.Duration(op.Nanos) * time.Nanosecond)
	}
	if op.Nanos > 0 {
		e.St.Inc("time_bounds_with_sub_microsecond_part")
	}
	pre := e.M.Clone()
	var found map[int64]struct{}
	var ferr error
	var statBefore klevdb.Stats
	bound := op.N
	switch op.Sub {
	case "offset":
		found, ferr = klevdb.FindByOffset(ctx, e.L, bound)
	case "count":
		found, ferr = klevdb.FindByCount(ctx, e.L, int(bound))
	case "size":
		var err error
		statBefore, err = e.L.Stat()
		e.must("Stat", err)
		found, ferr = klevdb.FindBySize(ctx, e.L, bound)
	case "age":
		found, ferr = klevdb.FindByAge(ctx, e.L, ageBound(bound))
	default:
		panic("trim sub " + op.Sub)
	}
	emptyTimeLog := op.Sub == "age" && len(pre.Live) == 0
	if ferr != nil && !emptyTimeLog {
		e.failf("err", "FindBy%s(%d) failed: %v", op.Sub, bound, ferr)
	}
	tag := "trim"
	if e.own(tag) && ferr == nil {
		// a prefix of the live sequence and nothing else
		offs := sortedOffsets(found)
		for i, o := range offs {
			if i >= len(pre.Live) || pre.Live[i].Off != o {
				e.failf(tag, "FindBy%s(%d) selected %v which is not a prefix of the live offsets %v", op.Sub, bound, offs, pre.Offsets())
			}
		}
	}
	var del []klevdb.Message
	var err error
	switch op.Sub + fmt.Sprint(op.Variant) {
	case "offset0":
		del, _, err = klevdb.TrimByOffset(ctx, e.L, bound)
	case "offset1":
		del, _, err = klevdb.TrimByOffsetMulti(ctx, e.L, bound, noBackoff)
	case "offset2":
		var offs map[int64]struct{}
		offs, _, err = klevdb.TrimByOffsetMultiOffsets(ctx, e.L, bound, noBackoff)
		del = e.offsetsAsMessages(offs)
	case "count0":
		del, _, err = klevdb.TrimByCount(ctx, e.L, int(bound))
	case "count1":
		del, _, err = klevdb.TrimByCountMulti(ctx, e.L, int(bound), noBackoff)
	case "count2":
		var offs map[int64]struct{}
		offs, _, err = klevdb.TrimByCountMultiOffsets(ctx, e.L, int(bound), noBackoff)
		del = e.offsetsAsMessages(offs)
	case "size0":
		del, _, err = klevdb.TrimBySize(ctx, e.L, bound)
	case "size1":
		del, _, err = klevdb.TrimBySizeMulti(ctx, e.L, bound, noBackoff)
	case "size2":
		del, _, err = klevdb.TrimBySizeMultiOffsets(ctx, e.L, bound, noBackoff)
	case "age0":
		del, _, err = klevdb.TrimByAge(ctx, e.L, ageBound(bound))
	case "age1":
		del, _, err = klevdb.TrimByAgeMulti(ctx, e.L, ageBound(bound), noBackoff)
	case "age2":
		var offs map[int64]struct{}
		offs, _, err = klevdb.TrimByAgeMultiOffsets(ctx, e.L, ageBound(bound), noBackoff)
		del = e.offsetsAsMessages(offs)
	}
	interrupted := err != nil && op.FailAt > 0 && injected(err)
	if interrupted {
		e.flag("multi-interrupted")
		e.St.Inc("multi_calls_interrupted_by_backoff")
	} else if err != nil && !emptyTimeLog {
		e.failf("err", "TrimBy%s(%d) variant %d failed: %v", op.Sub, bound, op.Variant, err)
	}
	e.applyDeleted(tag, del, nil)
	if len(del) > 0 {
		e.flag("deleted")
		e.flag("trimmed")
		if len(e.M.Live) == 0 {
			e.flag("emptied")
			e.flag("taildel")
		}
	}
	if !e.own(tag) {
		return
	}
	// the removed messages are a prefix of the live sequence
	dl := map[int64]bool{}
	for _, d := range del {
		dl[d.Offset] = true
	}
	for i, x := range pre.Live {
		if i < len(del) && !dl[x.Off] {
			e.failf(tag, "TrimBy%s(%d) removed %v which is not a prefix of the live offsets %v", op.Sub, bound, msgOffsets(del), pre.Offsets())
		}
	}
	if ferr == nil {
		for _, d := range del {
			if _, ok := found[d.Offset]; !ok {
				e.failf(tag, "TrimBy%s(%d) removed %d which FindBy%s did not select", op.Sub, bound, d.Offset, op.Sub)
			}
		}
	}
	// no message outside the prefix is touched
	e.scanCheck(e.L, tag, "after trim")
	// class: crossing a segment boundary or starting in a hole
	if len(del) > 0 {
		if pre.Live[0].Off > 0 {
			e.flag("trim-after-hole")
		}
	}
	// an interrupted Multi call has reported what it removed (checked above against the log); its bound is not reached
	multi := op.Variant >= 1 && !interrupted
	switch op.Sub {
	case "offset":
		for _, d := range del {
			if bound >= 0 && d.Offset >= bound {
				e.failf(tag, "TrimByOffset(%d) removed offset %d", bound, d.Offset)
			}
		}
		if bound == klevdb.OffsetOldest && len(del) > 0 {
			e.failf(tag, "TrimByOffset(OffsetOldest) removed %v", msgOffsets(del))
		}
		if multi {
			for _, x := range e.M.Live {
				if (bound >= 0 && x.Off < bound) || bound == klevdb.OffsetNewest {
					e.failf(tag, "TrimByOffsetMulti(%d) left live offset %d", bound, x.Off)
				}
			}
		}
	case "count":
		want := len(pre.Live)
		if int(bound) < want {
			want = int(bound)
		}
		if want < 0 {
			want = 0
		}
		if multi && len(e.M.Live) != want {
			e.failf(tag, "TrimByCountMulti(%d) on %d live messages left %d, want %d", bound, len(pre.Live), len(e.M.Live), want)
		}
		if !multi && len(e.M.Live) < want {
			e.failf(tag, "TrimByCount(%d) on %d live messages left %d, fewer than %d", bound, len(pre.Live), len(e.M.Live), want)
		}
	case "size":
		if multi {
			st, err := e.L.Stat()
			e.must("Stat", err)
			if st.Size >= bound && len(e.M.Live) > 0 {
				e.failf(tag, "TrimBySizeMulti(%d): size before %d, after %d with %d live messages", bound, statBefore.Size, st.Size, len(e.M.Live))
			}
		}
		if len(del) > 0 {
			// without removing more than the size estimate requires
			est := statBefore.Size
			for _, d := range del[:len(del)-1] {
				est -= e.L.Size(d)
			}
			if est < bound {
				e.failf(tag, "TrimBySize(%d) removed more than needed: estimate before the last removal was already %d (size before %d)", bound, est, statBefore.Size)
			}
		} else if multi && statBefore.Size >= bound && len(pre.Live) > 0 {
			e.failf(tag, "TrimBySizeMulti(%d) removed nothing although size is %d", bound, statBefore.Size)
		}
	case "age":
		at := e.absTS(bound)
		for _, d := range del {
			if d.Time.UnixMicro() > at {
				e.failf(tag, "TrimByAge(%d) removed newer message %d at time %d", at, d.Offset, d.Time.UnixMicro())
			}
		}
		if multi && pre.Mono && err == nil {
			for _, x := range e.M.Live {
				if x.TS < at {
					e.failf(tag, "TrimByAgeMulti(%d) left older message %d at time %d", at, x.Off, x.TS)
				}
			}
		}
	}
}

// ---------------------------------------------------------------------------------------------
// compaction (C16)

func latestEq(a, b map[string]string) string {
	for k, v := range a {
		if w, ok := b[k]; !ok || w != v {
			return fmt.Sprintf("key %q: %q -> %q (present=%v)", k, v, w, ok)
		}
	}
	for k, w := range b {
		if _, ok := a[k]; !ok {
			return fmt.Sprintf("key %q: absent -> %q", k, w)
		}
	}
	return ""
}

func (e *Env) applyCompact(op Op) {
	ctx, noBackoff, cancel := backoffFor(op.FailAt)
	defer cancel()
	pre := e.M.Clone()
	l0 := pre.Latest()
	tag := "compact"
	var del []klevdb.Message
	var err error
	cut := e.absTS(op.N)
	before := time.UnixMicro(cut).Add(time.Duration(op.Nanos) * time.Nanosecond)
	if op.Nanos > 0 {
		e.St.Inc("time_bounds_with_sub_microsecond_part")
	}
	reported := true
	switch op.Sub + fmt.Sprint(op.Variant) {
	case "updates0":
		del, _, err = klevdb.CompactUpdates(ctx, e.L, before)
	case "updates1":
		del, _, err = klevdb.CompactUpdatesMulti(ctx, e.L, before, noBackoff)
	case "updates2":
		var offs map[int64]struct{}
		offs, _, err = klevdb.CompactUpdatesMultiOffsets(ctx, e.L, before, noBackoff)
		del = e.offsetsAsMessages(offs)
	case "deletes0":
		del, _, err = klevdb.CompactDeletes(ctx, e.L, before)
	case "deletes1":
		del, _, err = klevdb.CompactDeletesMulti(ctx, e.L, before, noBackoff)
	case "deletes2":
		var offs map[int64]struct{}
		offs, _, err = klevdb.CompactDeletesMultiOffsets(ctx, e.L, before, noBackoff)
		del = e.offsetsAsMessages(offs)
	default: // Compact(age): reports nothing, the removed set is read back from the log
		reported = false
		err = klevdb.Compact(ctx, e.L, time.Duration(op.N)*time.Microsecond, noBackoff)
	}
	interrupted := err != nil && op.FailAt > 0 && injected(err)
	if interrupted {
		e.flag("multi-interrupted")
		e.St.Inc("multi_calls_interrupted_by_backoff")
	} else {
		e.must("Compact"+op.Sub, err)
	}
	if reported {
		e.applyDeleted(tag, del, nil)
	} else {
		got := e.scan(e.L, "err", "after Compact")
		// the new content must be a sub-sequence of the old one with identical messages
		j := 0
		var removed []klevdb.Message
		for _, x := range pre.Live {
			if j < len(got) && got[j].Offset == x.Off {
				if e.own(tag) && !x.Eq(got[j]) {
					e.failf(tag, "Compact altered message %d", x.Off)
				}
				j++
			} else {
				removed = append(removed, klevdb.Message{Offset: x.Off, Time: time.UnixMicro(x.TS).UTC(), Key: x.K, Value: x.V})
			}
		}
		if j != len(got) && e.own(tag) {
			e.failf(tag, "after Compact the log holds messages %v that are not a sub-sequence of %v", msgOffsets(got), pre.Offsets())
		}
		for _, d := range removed {
			e.M.Remove(d.Offset)
		}
		del = removed
	}
	if len(del) > 0 {
		e.flag("deleted")
		e.flag("compacted")
		if len(e.M.Live) == 0 {
			e.flag("emptied")
		}
	}
	if !e.own(tag) {
		return
	}
	if d := latestEq(l0, e.M.Latest()); d != "" {
		e.failf(tag, "Compact%s(%d) changed the latest value: %s", op.Sub, op.N, d)
	}
	e.scanCheck(e.L, tag, "after compaction")
	removedSet := map[int64]bool{}
	for _, d := range del {
		removedSet[d.Offset] = true
	}
	laterSameKey := func(d klevdb.Message) bool {
		for _, x := range pre.Live {
			if x.Off > d.Offset && bytes.Equal(x.K, d.Key) {
				return true
			}
		}
		return false
	}
	oldestOfKey := func(d klevdb.Message, ignoring map[int64]bool) bool {
		for _, x := range pre.Live {
			if x.Off < d.Offset && bytes.Equal(x.K, d.Key) && !ignoring[x.Off] {
				return false
			}
		}
		return true
	}
	tombstone := false
	for _, x := range pre.Live {
		if len(x.V) == 0 {
			tombstone = true
		}
	}
	segs := map[int]bool{}
	if sg, err := ReadSegs(e.Dir); err == nil {
		_ = sg
	}
	switch op.Sub {
	case "updates":
		for _, d := range del {
			if d.Time.UnixMicro() > cut {
				e.failf(tag, "CompactUpdates(%d) removed message %d newer than the cut-off (time %d)", cut, d.Offset, d.Time.UnixMicro())
			}
			if !laterSameKey(d) {
				e.failf(tag, "CompactUpdates(%d) removed message %d which has no later message with the same key", cut, d.Offset)
			}
		}
		if op.Variant >= 1 && pre.Mono && !interrupted {
			cnt := map[string]int{}
			for _, x := range e.M.Live {
				if x.TS <= cut {
					cnt[string(x.K)]++
				}
			}
			for k, c := range cnt {
				if c > 1 {
					e.failf(tag, "CompactUpdatesMulti(%d) left %d messages with key %q not newer than the cut-off", cut, c, k)
				}
			}
		}
	case "deletes":
		for _, d := range del {
			if d.Time.UnixMicro() > cut {
				e.failf(tag, "CompactDeletes(%d) removed message %d newer than the cut-off", cut, d.Offset)
			}
			if len(d.Value) != 0 {
				e.failf(tag, "CompactDeletes(%d) removed message %d which has a value", cut, d.Offset)
			}
			if !oldestOfKey(d, nil) {
				e.failf(tag, "CompactDeletes(%d) removed message %d which is not the oldest live message of its key", cut, d.Offset)
			}
		}
	default:
		// Compact(age): updates not newer than now-age, then deletes not newer than now-2*age
		now := time.Now().UnixMicro()
		cutU, cutD := now-op.N, now-2*op.N
		for _, d := range del {
			ts := d.Time.UnixMicro()
			okU := ts <= cutU && laterSameKey(d)
			okD := ts <= cutD && len(d.Value) == 0 && oldestOfKey(d, removedSet)
			if !okU && !okD {
				e.failf(tag, "Compact(age %dµs) removed message %d (time now-%dµs, value len %d): neither a superseded update nor an old tombstone", op.N, d.Offset, now-ts, len(d.Value))
			}
		}
	}
	_ = segs
	if len(del) > 0 && tombstone {
		e.flag("compact-with-tombstone")
	}
}
