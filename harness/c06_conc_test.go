package vf

// C06 under concurrency: publishers and Sync callers run freely; the FS tap keeps, per file, the length
// at its last fsync. Every time a Sync returns w, an image is built from the durable prefixes as of that
// moment (the files are append-only in this mix: publish, rollover, Sync) and recovered: NextOffset must
// be >= w and every offset below w must be there. The sequential engine (crash.go) cannot see a Sync that
// acknowledges an offset it read outside the critical section of its fsync.

import (
	"fmt"
	"os"
	"path/filepath"
	"strings"
	"sync"
	"sync/atomic"
	"testing"
	"time"

	"github.com/klev-dev/klevdb"
	"github.com/klev-dev/klevdb/pkg/verifhook"
)

type ackImage struct {
	w     int64
	files map[string][]byte
	lens  string
}

func runConcDurability(seed int64, rollover int64, pubs int, ms int, st *Stats) string {
	return runConcDurabilityMode(seed, rollover, pubs, ms, st, false)
}

// autoSync mode: every Publish return is an acknowledgement too (sampled), and so is Close.
func runConcDurabilityMode(seed int64, rollover int64, pubs int, ms int, st *Stats, autoSync bool) string {
	bursty := seed%2 == 1 && !autoSync
	root := MkScratch("vf-c06c-")
	defer os.RemoveAll(root)
	dir := filepath.Join(root, "log")
	img := filepath.Join(root, "img")
	_ = os.MkdirAll(dir, 0700)
	opts := klevdb.Options{KeyIndex: true, TimeIndex: true, Rollover: rollover, AutoSync: autoSync}
	l, err := klevdb.Open(dir, opts)
	if err != nil {
		return "open: " + err.Error()
	}
	var mu sync.Mutex
	synced := map[string]int{}
	var imgMu sync.Mutex
	var images []ackImage
	takeImage := func(w int64) {
		// durable state as of this acknowledgement. The directory is listed BEFORE the fsynced lengths are
		// copied: a file in the listing was created before the copy, and the rollover that created it had
		// fsynced the previous head before that, so the image never shows a new head next to a stale length
		es, _ := os.ReadDir(dir)
		mu.Lock()
		sc := make(map[string]int, len(synced))
		for k, v := range synced {
			sc[k] = v
		}
		mu.Unlock()
		im := ackImage{w: w, files: map[string][]byte{}}
		for _, en := range es {
			n := en.Name()
			if n == ".lock" {
				continue
			}
			ln := sc[n]
			var b []byte
			if ln > 0 {
				f, err := os.Open(filepath.Join(dir, n))
				if err == nil {
					b = make([]byte, ln)
					k, _ := f.ReadAt(b, 0)
					b = b[:k]
					_ = f.Close()
				}
			}
			im.files[n] = b
			im.lens += fmt.Sprintf(" %s:%d", strings.TrimLeft(n, "0"), len(b))
		}
		imgMu.Lock()
		if len(images) < 400 {
			images = append(images, im)
		}
		imgMu.Unlock()
	}
	begun := map[string]int{}
	verifhook.SetFS(func(op, site, p1, p2 string) {
		if filepath.Dir(p1) != dir {
			return
		}
		// what an fsync makes durable is at least what the file held when the call began; whether anything appended
		// while it ran made it to the disk is not known. (In the code as it is, appends and fsyncs of the head's files
		// both happen under the writer mutex and the two sizes are the same; a Sync that flushes outside the lock is
		// exactly the kind of change this must not be blind to.)
		if op == "fsync-begin" {
			if fi, err := os.Stat(p1); err == nil {
				mu.Lock()
				begun[fmt.Sprintf("%d|%s", goid(), p1)] = int(fi.Size())
				mu.Unlock()
			}
		}
		if op == "fsync" {
			mu.Lock()
			k := fmt.Sprintf("%d|%s", goid(), p1)
			if sz, ok := begun[k]; ok {
				if sz > synced[filepath.Base(p1)] {
					synced[filepath.Base(p1)] = sz
				}
				delete(begun, k)
			} else if fi, err := os.Stat(p1); err == nil {
				synced[filepath.Base(p1)] = int(fi.Size()) // an fsync without a begin tap (other sites): as before
			}
			mu.Unlock()
		}
	})
	defer verifhook.SetFS(nil)
	var pc atomic.Int64
	verifhook.SetPause(func(p string) {
		// hold the writer mutex for more than a millisecond now and then: queued waiters put the mutex into
		// starvation mode, where an unlock hands the lock straight to the next waiter
		if p == "publish.batch.before-visible" && pc.Add(1)%5 == 0 {
			time.Sleep(1500 * time.Microsecond)
		}
	})
	defer verifhook.SetPause(nil)
	stop := make(chan struct{})
	var wg sync.WaitGroup
	var failure atomic.Value
	for p := 0; p < pubs; p++ {
		wg.Add(1)
		go func(p int) {
			defer wg.Done()
			for i := 0; ; i++ {
				select {
				case <-stop:
					return
				default:
				}
				n := 1 + (i+p)%3
				msgs := make([]klevdb.Message, n)
				for j := range msgs {
					msgs[j] = klevdb.Message{Time: time.UnixMicro(int64(1000 + i)), Key: winKeys[(i+j)%len(winKeys)], Value: []byte(fmt.Sprintf("p%d-%d-%d", p, i, j))}
				}
				w, err := l.Publish(msgs)
				if err != nil {
					failure.Store("Publish failed: " + err.Error())
					return
				}
				if autoSync && i%7 == p {
					takeImage(w) // with AutoSync the return of Publish acknowledges w
				}
				if bursty && i%5 == 4 {
					time.Sleep(time.Duration(200+100*(i%4)) * time.Microsecond) // bursts: Syncs that find nothing new happen too
				}
			}
		}(p)
	}
	wg.Add(1)
	go func() {
		defer wg.Done()
		for {
			select {
			case <-stop:
				return
			default:
			}
			w, err := l.Sync()
			if err != nil {
				failure.Store("Sync failed: " + err.Error())
				return
			}
			takeImage(w)
			if bursty {
				// ... and a second one right behind the first
				if w2, err := l.Sync(); err == nil {
					takeImage(w2)
				}
			}
			time.Sleep(200 * time.Microsecond)
		}
	}()
	time.Sleep(time.Duration(ms) * time.Millisecond)
	close(stop)
	wg.Wait()
	verifhook.SetPause(nil)
	next, _ := l.NextOffset()
	if err := l.Close(); err != nil {
		return "Close failed: " + err.Error()
	}
	takeImage(next) // Close acknowledges everything
	verifhook.SetFS(nil)
	if f := failure.Load(); f != nil {
		return f.(string)
	}
	o := opts
	o.Recover = true
	for _, im := range images {
		restoreDir(img, im.files)
		st.Eval(1)
		st.NonTrivialStr(fmt.Sprintf("ack|%d|%d|%s", seed, im.w, im.lens))
		r, err := klevdb.Open(img, o)
		if err != nil {
			return fmt.Sprintf("Sync returned %d; recovering what was durable at that moment failed: %v (files%s)", im.w, err, im.lens)
		}
		next, _ := r.NextOffset()
		got, serr := scanLog(r)
		_ = r.Close()
		if serr != nil {
			return fmt.Sprintf("Sync returned %d; reading what was durable at that moment failed: %v (files%s)", im.w, serr, im.lens)
		}
		if next < im.w {
			return fmt.Sprintf("Sync returned %d, but after losing the data not yet fsynced at that moment NextOffset is %d (files%s)", im.w, next, im.lens)
		}
		have := map[int64]bool{}
		for _, g := range got {
			have[g.Offset] = true
		}
		for o := int64(0); o < im.w; o++ {
			if !have[o] {
				return fmt.Sprintf("Sync returned %d, but offset %d is not in what was durable at that moment (files%s)", im.w, o, im.lens)
			}
		}
	}
	st.Add("acknowledgements_checked", int64(len(images)))
	return ""
}

func TestC06Concurrent(t *testing.T) {
	st := NewStats("C06")
	defer st.Write()
	seed := int64(envInt("VF_SEED", 1))
	rounds := envInt("VF_CASES", 2)
	ms := 300
	if thoroughTier() {
		ms = 1500
	}
	for i := 0; i < rounds; i++ {
		ro := []int64{150, 400, 1 << 20}[(int(seed)+i)%3]
		pubs := 2 + (int(seed)+i)%3
		if msg := runConcDurabilityMode(seed+int64(i), ro, pubs, ms, st, i%3 == 2); msg != "" {
			v := &Violation{Oracle: "durability", Msg: fmt.Sprintf("concurrent publishers=%d rollover=%d: %s", pubs, ro, msg)}
			path := WriteReplay("C06", "stress", v, map[string]any{"publishers": pubs, "rollover": ro, "seed": seed + int64(i), "note": "free-running schedule: not reproducible by construction; this file is the recorded evidence"})
			fmt.Printf("%v\nVIOLATION property=C06 replay=%s\n", v, path)
			t.FailNow()
		}
		st.Inc("concurrent_rounds")
	}
}
