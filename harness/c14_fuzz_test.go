package vf

// FuzzDamageRead (C14, thorough tier): coverage-guided search over (log, segment, position, bytes)
// overwrites of pre-built multi-segment V2 logs, judged by the same oracle as TestC14.

import (
	"fmt"
	"os"
	"path/filepath"
	"testing"
	"time"

	"github.com/klev-dev/klevdb"
)

type fuzzLog struct {
	c        *DmgAPICase
	m        *Model
	opts     klevdb.Options
	files    map[string][]byte
	segs     []SegInfo
	calls    []apiCall
	pristine []apiResult
}

func buildFuzzLog(root string, id int) *fuzzLog {
	c := &DmgAPICase{Rollover: []int64{100, 150, 250, 400}[id%4], Seed: uint64(id + 1)}
	x := uint64(id*7919 + 13)
	ts := int64(10)
	n := 6 + id*2
	for i := 0; i < n; i++ {
		ts += int64(xorshift(&x) % 3)
		m := CodecMsg{Off: int64(i), TS: ts, K: append([]byte{}, dmgKeys[xorshift(&x)%uint64(len(dmgKeys))]...)}
		if vl := int(xorshift(&x) % 31); vl > 0 {
			m.V = pattern(vl, byte(xorshift(&x)))
		}
		c.Msgs = append(c.Msgs, m)
	}
	c.Deletes = []int64{int64(id % n), int64((id * 3) % n)}
	dir := filepath.Join(root, fmt.Sprintf("log%d", id))
	_ = os.MkdirAll(dir, 0700)
	fl := &fuzzLog{c: c, m: NewModel(), opts: klevdb.Options{KeyIndex: true, TimeIndex: true, Rollover: c.Rollover}}
	l, err := klevdb.Open(dir, fl.opts)
	if err != nil {
		panic(err)
	}
	for _, mm := range c.Msgs {
		if _, err := l.Publish([]klevdb.Message{{Time: time.UnixMicro(mm.TS), Key: mm.K, Value: mm.V}}); err != nil {
			panic(err)
		}
		fl.m.Append(Msg{Off: mm.Off, TS: mm.TS, K: mm.K, V: mm.V})
	}
	for _, d := range c.Deletes {
		del, _, _ := l.Delete(map[int64]struct{}{d: {}})
		for _, dm := range del {
			fl.m.Remove(dm.Offset)
		}
	}
	_ = l.Close()
	fl.files = snapshotDir(dir)
	fl.segs, _ = ReadSegs(dir)
	m := fl.m
	for o := int64(0); o <= m.Next+1; o++ {
		fl.calls = append(fl.calls, apiCall{kind: "get", off: o})
	}
	for o := int64(-2); o <= m.Next; o++ {
		fl.calls = append(fl.calls, apiCall{kind: "consume", off: o, max: []int64{1, 3, 100}[int(o+2)%3]})
	}
	for _, k := range dmgKeys {
		fl.calls = append(fl.calls, apiCall{kind: "getbykey", key: k}, apiCall{kind: "consumebykey", key: k, off: klevdb.OffsetOldest, max: 100})
	}
	for q := m.MinT - 1; q <= m.MaxT+1; q++ {
		fl.calls = append(fl.calls, apiCall{kind: "getbytime", ts: q})
	}
	pl, err := klevdb.Open(dir, fl.opts)
	if err != nil {
		panic(err)
	}
	fl.pristine = make([]apiResult, len(fl.calls))
	for i, cl := range fl.calls {
		fl.pristine[i] = cl.run(pl)
	}
	_ = pl.Close()
	return fl
}

func FuzzDamageRead(f *testing.F) {
	root := MkScratch("vf-fuzzdmg-")
	f.Cleanup(func() { os.RemoveAll(root) })
	var logs []*fuzzLog
	for i := 0; i < 4; i++ {
		logs = append(logs, buildFuzzLog(root, i))
	}
	f.Add(uint8(0), uint8(0), uint16(30), []byte{0x40})
	f.Add(uint8(1), uint8(1), uint16(28), []byte{0x40, 0, 0, 0, 0x40})
	f.Add(uint8(2), uint8(0), uint16(8), []byte{0xFF, 0xFF, 0xFF, 0xFF})
	f.Add(uint8(3), uint8(2), uint16(50), []byte{0})
	st := NewStats("C14")
	f.Fuzz(func(t *testing.T, li, si uint8, pos uint16, b []byte) {
		fl := logs[int(li)%len(logs)]
		sg := fl.segs[int(si)%len(fl.segs)]
		orig := fl.files[sg.Name+".log"]
		if len(orig) <= 8 || len(b) == 0 {
			return
		}
		if len(b) > 8 {
			b = b[:8]
		}
		p := 8 + int(pos)%(len(orig)-8)
		nb := append([]byte{}, orig...)
		dm := map[int64]bool{}
		changed := false
		for j := 0; j < len(b) && p+j < len(nb); j++ {
			if nb[p+j] != b[j] {
				changed = true
				for _, r := range sg.Recs {
					if int64(p+j) >= r.Pos && int64(p+j) < r.End {
						dm[r.Off] = true
					}
				}
			}
			nb[p+j] = b[j]
		}
		if !changed {
			return
		}
		d := apiDamage{desc: fmt.Sprintf("fuzz over seg%d@%d %x", int(si)%len(fl.segs), p, b), seg: int(si) % len(fl.segs), data: nb, overwrite: true, damaged: dm, field: "fuzz"}
		work := filepath.Join(root, fmt.Sprintf("work%d", os.Getpid()))
		if v := protect(func() { tryAPIDamage(fl.c, st, fl.m, fl.opts, fl.files, fl.segs, work, fl.calls, fl.pristine, d) }); v != nil {
			t.Fatalf("log %d: damage %q: %v", int(li)%len(logs), d.desc, v)
		}
	})
}
