package vf

// History engine: one stateful generator that drives a real klevdb log and the reference model in
// lock-step. Generation (rapid draws, from the model state) produces concrete Op records; Apply
// executes an Op deterministically. A trace (HCase) is therefore replayable without rapid.

import (
	"context"
	"encoding/hex"
	"errors"
	"fmt"
	"os"
	"path/filepath"
	"sort"
	"strings"
	"sync"
	"time"

	"github.com/klev-dev/klevdb"
)

type HConfig struct {
	KeyIndex  bool `json:"key_index"`
	TimeIndex bool `json:"time_index"`
	MonoTimes bool `json:"mono_times"` // generator produces only non-decreasing, positive times
	Single    int  `json:"single"`     // 0: versions may mix; 1: V1 only; 2: V2 only
	RelTime   bool `json:"rel_time"`   // message times in the trace are relative to the start of the run (C16 Compact(age))
	SmallKeys bool `json:"small_keys"` // compaction profile: at most 5 keys
	// CheckEvery > 1: the full observation runs only after every n-th step, so lazily loaded state
	// (segments not yet indexed after a reopen, GC'd readers) is still lazy when the next operation runs
	CheckEvery int `json:"check_every"`
	// DirStyle: how the directory is spelled in Open (0 clean, 1 trailing slash, 2 doubled slash, 3 via "x/..")
	DirStyle int `json:"dir_style,omitempty"`
	// WallClock: every message is published with the zero time, i.e. stamped by the log (monotone wall clock)
	WallClock bool `json:"wall_clock,omitempty"`
	// SubMicro: message times carry nanoseconds below the microsecond and a non-UTC location (same microsecond time)
	SubMicro bool `json:"sub_micro,omitempty"`
	// LongKeys: a 300-byte and a 70000-byte key are published now and then and looked up in every key sweep
	LongKeys bool `json:"long_keys,omitempty"`
}

type OpenOpts struct {
	Rollover int64 `json:"rollover"`
	V1       bool  `json:"v1,omitempty"`
	Keep     bool  `json:"keep,omitempty"`
	Eager    bool  `json:"eager,omitempty"`
	Check    bool  `json:"check,omitempty"`
	Recover  bool  `json:"recover,omitempty"`
	AutoSync bool  `json:"autosync,omitempty"`
}

func (o OpenOpts) Options(c HConfig) klevdb.Options {
	opts := klevdb.Options{KeyIndex: c.KeyIndex, TimeIndex: c.TimeIndex, Rollover: o.Rollover, Check: o.Check, Recover: o.Recover, AutoSync: o.AutoSync}
	if o.V1 {
		opts.Version.NewSegmentsVersion = klevdb.V1
	} else {
		opts.Version.NewSegmentsVersion = klevdb.V2
	}
	opts.Version.KeepRewriteVersion = o.Keep
	opts.Version.EagerVersionMigrate = o.Eager
	return opts
}

type MsgIn struct {
	K        HexBytes `json:"k"`
	V        HexBytes `json:"v"`
	TS       int64    `json:"ts"`
	ZeroTime bool     `json:"zero_time,omitempty"` // publish with the zero time.Time: the log stamps it with the wall clock
	Bogus    int64    `json:"bogus_off,omitempty"` // offset supplied by the caller; must be ignored
}

type Op struct {
	Kind    string    `json:"op"`
	Msgs    []MsgIn   `json:"msgs,omitempty"`
	Offsets []int64   `json:"offsets,omitempty"`
	Variant int       `json:"variant,omitempty"` // 0 single-call, 1 ...Multi, 2 ...MultiOffsets
	Sub     string    `json:"sub,omitempty"`
	N       int64     `json:"n,omitempty"`
	Opts    *OpenOpts `json:"opts,omitempty"`
	RmIdx   []string  `json:"rmidx,omitempty"`  // index files removed while the log is closed
	CutIdx  bool      `json:"cutidx,omitempty"` // ... cut back to their header instead (an index without items)
	Handles int       `json:"handles,omitempty"`
	Fresh   bool      `json:"fresh,omitempty"`
	ToV1    bool      `json:"to_v1,omitempty"`
	// Oversize (publish): 1-based position of a message in the batch whose value is replaced by one byte more than a
	// record can hold; the Publish must fail and leave a log that is still a log
	Oversize int `json:"oversize,omitempty"`
	// Split (with Oversize): the offending message has a key and a value of 33 MiB each instead of one value over the bound
	Split bool `json:"split,omitempty"`
	// Wipe (backup): empty and re-create the directory of the previous backup and back up into it again ("backup
	// rotation": the same path, an empty directory)
	Wipe bool `json:"wipe,omitempty"`
	// Cold (reopen): segment files moved to another directory and linked back while the log is closed
	Cold []string `json:"cold,omitempty"`
	// FailAt (Multi variants of delete/trim/compact): the back-off fails at its FailAt-th call (1-based); odd values
	// fail with an own error, even values cancel the context and return its error
	FailAt int `json:"fail_at,omitempty"`
	// Nanos (trim by age, compactions): nanoseconds below the microsecond added to the time bound
	Nanos int `json:"nanos,omitempty"`
}

var errInjectedBackoff = errors.New("injected back-off failure")

var backoffSeq int // alternates between an own and the library's back-off; no effect on the outcome of a correct call

// backoffFor returns the context and back-off of a Multi call: never failing, or failing at the FailAt-th call.
func backoffFor(failAt int) (context.Context, klevdb.DeleteMultiBackoff, func()) {
	ctx, cancel := context.WithCancel(context.Background())
	// the library's own back-off (a wait that a cancelled context ends) in half of the calls
	backoffSeq++
	lib := backoffSeq%2 == 0
	wait := klevdb.DeleteMultiWithWait(time.Microsecond)
	if failAt <= 0 {
		if lib {
			return ctx, wait, cancel
		}
		return ctx, noBackoff, cancel
	}
	calls := 0
	return ctx, func(c context.Context) error {
		calls++
		if calls < failAt {
			if lib {
				return wait(c)
			}
			return nil
		}
		if failAt%2 == 0 {
			cancel()
			if failAt == 4 && !lib {
				return nil // a back-off that does not look at the context: the helper may go on or stop, but must report what it did
			}
			if lib {
				return klevdb.DeleteMultiWithWait(time.Hour)(c) // must return at once: the context is cancelled
			}
			return c.Err()
		}
		return errInjectedBackoff
	}, cancel
}

func injected(err error) bool {
	return errors.Is(err, errInjectedBackoff) || errors.Is(err, context.Canceled)
}

var hugeOnce sync.Once
var hugeVal []byte

// hugeValue is one byte longer than the largest record body (never touched, so it costs address space only).
func hugeValue() []byte {
	hugeOnce.Do(func() { hugeVal = make([]byte, 64*1024*1024+1) })
	return hugeVal
}

func (o Op) String() string {
	switch o.Kind {
	case "publish":
		return fmt.Sprintf("publish(%d)", len(o.Msgs))
	case "delete":
		return fmt.Sprintf("delete/%d%v", o.Variant, o.Offsets)
	case "reopen":
		return fmt.Sprintf("reopen%+v rm=%v", *o.Opts, o.RmIdx)
	}
	return fmt.Sprintf("%s/%s/%d n=%d", o.Kind, o.Sub, o.Variant, o.N)
}

type HCase struct {
	Profile string   `json:"profile"`
	Cfg     HConfig  `json:"config"`
	Open    OpenOpts `json:"open"`
	Ops     []Op     `json:"ops"`
}

// Profile selects operation weights and which oracles decide the property.
type Profile struct {
	Name    string
	Prop    string
	Weights map[string]int
	Own     map[string]bool
	// Config biases
	ForceKeys, ForceTimes, ForceMono bool
	ForceSingle                      bool
	ForceMixed                       bool // never a single-version case, reopen steps prefer the other version
	SmallKeys                        bool
	RelTime                          bool
	NoZeroTime                       bool
	TinyRollBias                     bool // prefer small rollover sizes
}

func own(tags ...string) map[string]bool {
	m := map[string]bool{"err": true}
	for _, t := range tags {
		m[t] = true
	}
	return m
}

var baseWeights = map[string]int{"publish": 40, "delete": 14, "reopen": 10, "gc": 3, "sync": 2, "trim": 6, "compact": 5, "migrate": 3, "pkg": 3, "backup": 3, "ro": 3, "probe": 3}

func weights(over map[string]int) map[string]int {
	w := map[string]int{}
	for k, v := range baseWeights {
		w[k] = v
	}
	for k, v := range over {
		w[k] = v
	}
	return w
}

var Profiles = map[string]*Profile{
	"C01": {Name: "C01", Prop: "C01", Weights: weights(nil), Own: own("scan")},
	"C02": {Name: "C02", Prop: "C02", Weights: weights(map[string]int{"delete": 22, "reopen": 16, "trim": 3, "compact": 2, "backup": 0, "ro": 1, "sync": 4}), Own: own("pub", "next")},
	"C03": {Name: "C03", Prop: "C03", Weights: weights(map[string]int{"probe": 14, "delete": 22, "backup": 0, "pkg": 1, "ro": 4}), Own: own("consume"), TinyRollBias: true},
	"C04": {Name: "C04", Prop: "C04", Weights: weights(map[string]int{"probe": 14, "delete": 22, "backup": 0, "pkg": 1, "ro": 4}), Own: own("get"), TinyRollBias: true},
	"C09": {Name: "C09", Prop: "C09", Weights: weights(map[string]int{"delete": 20, "backup": 0, "pkg": 1}), Own: own("key"), TinyRollBias: true},
	"C10": {Name: "C10", Prop: "C10", Weights: weights(map[string]int{"probe": 10, "delete": 20, "backup": 0, "pkg": 1, "compact": 2}), Own: own("time"), ForceMono: true, TinyRollBias: true},
	"C11": {Name: "C11", Prop: "C11", Weights: weights(map[string]int{"reopen": 18, "migrate": 5, "backup": 0, "ro": 1}), Own: own("index", "rmidx", "layout")},
	"C12": {Name: "C12", Prop: "C12", Weights: weights(map[string]int{"delete": 30, "trim": 2, "compact": 2, "backup": 0, "ro": 0, "pkg": 1}), Own: own("delete", "scan")},
	"C13": {Name: "C13", Prop: "C13", Weights: weights(map[string]int{"backup": 0, "ro": 2, "reopen": 14}), Own: own("stat", "size", "layout")},
	"C15": {Name: "C15", Prop: "C15", Weights: weights(map[string]int{"trim": 25, "delete": 12, "compact": 1, "backup": 0, "ro": 0}), Own: own("trim")},
	"C16": {Name: "C16", Prop: "C16", Weights: weights(map[string]int{"compact": 25, "trim": 1, "delete": 6, "backup": 0, "ro": 0, "migrate": 1, "pkg": 1}), Own: own("compact"), SmallKeys: true, RelTime: true, NoZeroTime: true},
	"C17": {Name: "C17", Prop: "C17", Weights: weights(map[string]int{"migrate": 12, "reopen": 16, "delete": 18, "trim": 2, "compact": 2, "backup": 0, "ro": 1}), Own: own("version", "migrate", "scan", "next", "consume", "get", "key", "time", "layout"), ForceMixed: true},
	"C19": {Name: "C19", Prop: "C19", Weights: weights(map[string]int{"ro": 20, "backup": 0, "trim": 3, "compact": 2}), Own: own("ro")},
	"C20": {Name: "C20", Prop: "C20", Weights: weights(map[string]int{"backup": 22, "trim": 3, "compact": 2, "ro": 0}), Own: own("backup")},
}

// Env is one running case.
type Env struct {
	P    *Profile
	Cfg  HConfig
	Root string
	Dir  string
	Opts OpenOpts
	L    klevdb.Log
	M    *Model
	St   *Stats
	Step int
	T0   int64 // base for relative times (unix µs), 0 unless Cfg.RelTime

	startOpts OpenOpts
	bkDir     string // reusable backup directory ("" = none)
	bkLast    string // directory of the most recent backup, whatever happened since
	bkOld     []oldBackup
	bkSeq     int
	coldSeq   int
	cutNames  map[string]bool // index files cut to their header by the harness since the last close
	rep       map[int64]uint8 // how a missing key/value of each offset was first handed out (nil or empty)
	flags     map[string]bool
	closed    bool
	segsMax   int
	liveMax   int
	Trace     []Op
}

func (e *Env) own(tag string) bool { return e.P.Own[tag] }

// openPath is the directory as it is spelled in Open calls; e.Dir stays the clean path for inspection.
// dirName: the name of the log directory. Styles 4.. use names with characters that mean something to glob patterns,
// shells or path cleaning; the log directory is the caller's choice.
func dirName(style int) string {
	switch style {
	case 4:
		return "orders[0]"
	case 5:
		return "l*g?"
	case 6:
		return `a\b`
	case 7:
		return "sp ace {x},y"
	case 8:
		return "..log"
	}
	return "log"
}

func (e *Env) openPath() string {
	switch e.Cfg.DirStyle {
	case 1:
		return e.Dir + "/"
	case 2:
		return filepath.Dir(e.Dir) + "//" + filepath.Base(e.Dir)
	case 3:
		return filepath.Dir(e.Dir) + "/x/../" + filepath.Base(e.Dir)
	}
	return e.Dir
}

func (e *Env) failf(oracle, format string, args ...any) {
	panic(&Violation{Oracle: oracle, Msg: fmt.Sprintf("step %d: ", e.Step) + fmt.Sprintf(format, args...)})
}

// must reports an unexpected error of an operation the contract says succeeds.
func (e *Env) must(what string, err error) {
	if err != nil {
		e.failf("err", "%s failed: %v", what, err)
	}
}

func (e *Env) flag(name string) {
	if !e.flags[name] {
		e.flags[name] = true
	}
}

func NewEnv(p *Profile, cfg HConfig, open OpenOpts, st *Stats) *Env {
	root := MkScratch("vf-hist-")
	e := &Env{P: p, Cfg: cfg, Root: root, Dir: filepath.Join(root, dirName(cfg.DirStyle)), Opts: open, startOpts: open, M: NewModel(), St: st, flags: map[string]bool{}, rep: map[int64]uint8{}}
	if cfg.RelTime {
		e.T0 = time.Now().UnixMicro()
	}
	return e
}

func (e *Env) Start() {
	if err := os.MkdirAll(e.Dir, 0700); err != nil {
		panic(err)
	}
	if e.Cfg.DirStyle == 3 {
		_ = os.MkdirAll(filepath.Join(filepath.Dir(e.Dir), "x"), 0700)
	}
	l, err := klevdb.Open(e.openPath(), e.Opts.Options(e.Cfg))
	e.must("open new log", err)
	e.L = l
}

func (e *Env) Cleanup() {
	if e.L != nil && !e.closed {
		_ = e.L.Close()
	}
	_ = os.RemoveAll(e.Root)
}

var noBackoff = func(context.Context) error { return nil }

func offsetSet(offs []int64) map[int64]struct{} {
	m := make(map[int64]struct{}, len(offs))
	for _, o := range offs {
		m[o] = struct{}{}
	}
	return m
}

func sortedOffsets(m map[int64]struct{}) []int64 {
	out := make([]int64, 0, len(m))
	for o := range m {
		out = append(out, o)
	}
	sort.Slice(out, func(i, j int) bool { return out[i] < out[j] })
	return out
}

func msgOffsets(ms []klevdb.Message) []int64 {
	out := make([]int64, len(ms))
	for i, m := range ms {
		out[i] = m.Offset
	}
	return out
}

func (e *Env) absTS(ts int64) int64 { return e.T0 + ts }

// Apply executes one operation against the real log and the model and runs the per-operation oracles.
func (e *Env) Apply(op Op) {
	e.Step++
	e.Trace = append(e.Trace, op)
	e.St.Inc("op." + op.Kind)
	switch op.Kind {
	case "publish", "backup", "reopen", "gc", "sync", "ro", "probe":
		// the source "has only been appended to": sessions, GC and Sync do not take anything away
	default:
		e.bkDir = "" // deletes, trims, compactions, migrations, repairs: the directory of the last backup is not reused
	}
	if op.Kind == "reopen" && op.Opts != nil && op.Opts.Eager {
		e.bkDir = "" // an eager migration rewrites the segment files
	}
	switch op.Kind {
	case "publish":
		e.applyPublish(op)
	case "delete":
		e.applyDelete(op)
	case "reopen":
		e.applyReopen(op)
	case "gc":
		d := time.Duration(0)
		switch {
		case op.N > 0:
			d = time.Duration(op.N) * time.Hour
		case op.N < 0:
			d = time.Duration(-op.N) * time.Microsecond // "unused for a moment": unloads what the last steps did not touch
		}
		e.must("GC", e.L.GC(d))
	case "sync":
		n, err := e.L.Sync()
		e.must("Sync", err)
		if e.own("next") && n != e.M.Next {
			e.failf("next", "Sync returned %d, want %d", n, e.M.Next)
		}
	case "trim":
		e.applyTrim(op)
	case "compact":
		e.applyCompact(op)
	case "migrate":
		e.applyMigrate(op)
	case "pkg":
		e.applyPkg(op)
	case "backup":
		e.applyBackup(op)
	case "ro":
		e.applyRO(op)
	case "probe":
		e.applyProbe(op)
	default:
		panic("unknown op " + op.Kind)
	}
	e.noteLayout()
}

func (e *Env) noteLayout() {
	if len(e.M.Live) > e.liveMax {
		e.liveMax = len(e.M.Live)
	}
	names, err := listLogs(e.Dir)
	if err != nil {
		return
	}
	if len(names) > e.segsMax {
		e.segsMax = len(names)
	}
	if len(names) >= 2 {
		e.flag("multiseg")
	}
	if len(names) >= 3 {
		e.flag("seg3")
	}
}

// applyRejectedPublish publishes a batch that contains a message no record can hold. The call must fail. The
// properties do not say that a failed batch is all-or-nothing, so a prefix of the batch (the messages before the
// offending one) may have become part of the log - but then as ordinary messages: NextOffset says how many, and
// every later observation holds the log to the model extended by exactly those.
func (e *Env) applyRejectedPublish(op Op, msgs []klevdb.Message) {
	j := op.Oversize - 1
	msgs[j].Value = hugeValue()
	if op.Split {
		// neither the key nor the value is too big alone, together they are
		msgs[j].Key = hugeValue()[:33<<20]
		msgs[j].Value = hugeValue()[:33<<20]
		e.St.Inc("publish_rejected_key_plus_value_too_big")
	}
	e.flag("rejected-publish")
	if j > 0 {
		e.flag("rejected-publish-mid-batch")
	}
	e.St.Inc("publish_rejected_oversize")
	_, err := e.L.Publish(msgs)
	if err == nil {
		e.failf("err", "Publish accepted a message of %d bytes (at position %d of %d)", len(msgs[j].Value)+len(msgs[j].Key), j, len(msgs))
	}
	n, nerr := e.L.NextOffset()
	e.must("NextOffset", nerr)
	base := e.M.Next
	if n < base || n > base+int64(j) {
		e.failf("err", "after a rejected Publish (offending message at position %d) NextOffset is %d, was %d", j, n, base)
	}
	for i := 0; int64(i) < n-base; i++ {
		e.M.Append(Msg{Off: base + int64(i), TS: msgs[i].Time.UnixMicro(), K: append([]byte(nil), op.Msgs[i].K...), V: append([]byte(nil), op.Msgs[i].V...)})
		e.St.Inc("publish_rejected_prefix_kept")
	}
}

func (e *Env) applyPublish(op Op) {
	msgs := make([]klevdb.Message, len(op.Msgs))
	for i, in := range op.Msgs {
		m := klevdb.Message{Offset: in.Bogus, Key: []byte(in.K), Value: []byte(in.V)}
		if !in.ZeroTime {
			m.Time = time.UnixMicro(e.absTS(in.TS))
			if e.Cfg.SubMicro {
				// same microsecond, other spelling: nanoseconds below the microsecond and a non-UTC location
				ns := (in.TS*37 + int64(i)*11) % 1000
				if ns < 0 {
					ns = -ns
				}
				m.Time = m.Time.Add(time.Duration(ns) * time.Nanosecond).In(time.FixedZone("x", int((in.TS%27-13)*1800)))
				e.St.Inc("messages_with_sub_microsecond_time")
			}
		}
		msgs[i] = m
	}
	if len(msgs) == 0 && e.Step%2 == 0 {
		msgs = nil // "any batch size incl. 0": the nil slice is one
	}
	var before []string
	if e.own("version") {
		before, _ = listLogs(e.Dir)
	}
	var sizeBefore int64
	if e.own("size") {
		sizeBefore = dirDataSize(e.Dir)
		before, _ = listLogs(e.Dir)
	}
	if op.Oversize > 0 {
		e.applyRejectedPublish(op, msgs)
		return
	}
	n, err := e.L.Publish(msgs)
	e.must("Publish", err)
	want := e.M.Next + int64(len(msgs))
	if e.own("pub") {
		if n != want {
			e.failf("pub", "Publish of %d messages returned %d, want %d", len(msgs), n, want)
		}
		for i := range msgs {
			if msgs[i].Offset != e.M.Next+int64(i) {
				e.failf("pub", "message %d of the batch was assigned offset %d, want %d", i, msgs[i].Offset, e.M.Next+int64(i))
			}
		}
	}
	base := e.M.Next
	for i := range msgs {
		// offsets as the model defines them; times read back (zero time => wall clock chosen by the log)
		x := Msg{Off: base + int64(i), TS: msgs[i].Time.UnixMicro(), K: append([]byte(nil), op.Msgs[i].K...), V: append([]byte(nil), op.Msgs[i].V...)}
		if !op.Msgs[i].ZeroTime && x.TS != e.absTS(op.Msgs[i].TS) {
			e.failf("pub", "Publish changed a non-zero message time")
		}
		e.M.Append(x)
		if e.Cfg.TimeIndex && x.TS < 0 {
			e.M.Mono = false // F1: time lookups are not judged once a time-indexed log holds a message from before 1970
			e.St.Inc("pre_epoch_message_in_time_indexed_log_time_view_not_judged")
		}
	}
	if len(msgs) == 0 {
		e.flag("emptybatch")
		e.M.Next = base
	}
	if e.flags["taildel-reopen"] && len(msgs) > 0 {
		e.flag("taildel-reopen-publish")
	}
	if e.own("version") || e.own("size") {
		after, _ := listLogs(e.Dir)
		created := diffNames(after, before)
		if e.own("version") {
			for _, n := range created {
				e.checkFileVersion("version", n, e.Opts.V1, "segment created by Publish")
			}
		}
		if e.own("size") {
			// Size(m) == bytes a message adds to a segment: directory growth minus the headers of new segment files
			var want int64
			for _, m := range msgs {
				want += e.L.Size(m)
				var ref = RefSize(!e.Opts.V1, m.Key, m.Value) + RefItemSize(e.Cfg.KeyIndex, e.Cfg.TimeIndex)
				if e.L.Size(m) != ref {
					e.failf("size", "Log.Size=%d, documented layout needs %d", e.L.Size(m), ref)
				}
			}
			growth := dirDataSize(e.Dir) - sizeBefore
			var hdr int64
			for _, n := range created {
				hdr += fileHeaderBytes(filepath.Join(e.Dir, n))
				hdr += fileHeaderBytesIdx(filepath.Join(e.Dir, strings.TrimSuffix(n, ".log")+".index"))
			}
			// Size is documented in NewSegmentsVersion: exact only when the head segment has that version
			if e.headVersionIsNew() && growth-hdr != want {
				e.failf("size", "publish of %d messages grew the directory by %d bytes (+%d header), Size() sum is %d", len(msgs), growth-hdr, hdr, want)
			}
		}
	}
}

func (e *Env) headVersionIsNew() bool {
	segs, err := ReadSegs(e.Dir)
	if err != nil || len(segs) == 0 {
		return false
	}
	h := segs[len(segs)-1]
	if h.Empty {
		return false
	}
	return h.V2 == !e.Opts.V1
}

func dirDataSize(dir string) int64 {
	es, _ := os.ReadDir(dir)
	var sz int64
	for _, en := range es {
		if strings.HasSuffix(en.Name(), ".log") || strings.HasSuffix(en.Name(), ".index") {
			// the file's size, also when the directory entry is a link to it
			if i, err := os.Stat(filepath.Join(dir, en.Name())); err == nil {
				sz += i.Size()
			}
		}
	}
	return sz
}

func fileHeaderBytes(p string) int64 {
	b, err := os.ReadFile(p)
	if err == nil && IsV2Log(b) {
		return 8
	}
	return 0
}

func fileHeaderBytesIdx(p string) int64 {
	b, err := os.ReadFile(p)
	if err == nil && IsV2Index(b) {
		return 8
	}
	return 0
}

func diffNames(after, before []string) []string {
	m := map[string]bool{}
	for _, b := range before {
		m[b] = true
	}
	var out []string
	for _, a := range after {
		if !m[a] {
			out = append(out, a)
		}
	}
	return out
}

func (e *Env) checkFileVersion(tag, logName string, wantV1 bool, what string) {
	b, err := os.ReadFile(filepath.Join(e.Dir, logName))
	if err != nil {
		e.failf(tag, "%s: %v", what, err)
	}
	isV2 := IsV2Log(b)
	if wantV1 == isV2 {
		e.failf(tag, "%s: %s (len %d) has V2 header=%v, want V1=%v", what, logName, len(b), isV2, wantV1)
	}
}

// applyDeleted updates the model with what a deleting call reported, and checks the report (C12).
func (e *Env) applyDeleted(tag string, del []klevdb.Message, req map[int64]struct{}) {
	seen := map[int64]bool{}
	for _, d := range del {
		x, live := e.M.Find(d.Offset)
		if e.own(tag) {
			if req != nil {
				if _, ok := req[d.Offset]; !ok {
					e.failf(tag, "reported deleting offset %d which was not requested", d.Offset)
				}
			}
			if !live {
				e.failf(tag, "reported deleting offset %d which was not live", d.Offset)
			}
			if !x.Eq(d) {
				e.failf(tag, "deleted message %d reported with different content: %+v, published %+v", d.Offset, FromMessage(d), x)
			}
			if seen[d.Offset] {
				e.failf(tag, "offset %d reported twice", d.Offset)
			}
		}
		seen[d.Offset] = true
		e.M.Remove(d.Offset)
	}
}

func (e *Env) callDelete(variant int, set map[int64]struct{}, failAt ...int) ([]klevdb.Message, int64, error) {
	fa := 0
	if len(failAt) > 0 {
		fa = failAt[0]
	}
	ctx, noBackoff, cancel := backoffFor(fa)
	defer cancel()
	switch variant {
	case 1:
		return klevdb.DeleteMulti(ctx, e.L, set, noBackoff)
	case 2:
		offs, sz, err := klevdb.DeleteMultiOffsets(ctx, e.L, set, noBackoff)
		return e.offsetsAsMessages(offs), sz, err
	default:
		return e.L.Delete(set)
	}
}

// offsetsAsMessages turns an offsets-only report into messages using the model's content, so the
// common bookkeeping applies (content cannot be checked for the ...Offsets variants).
func (e *Env) offsetsAsMessages(offs map[int64]struct{}) []klevdb.Message {
	var out []klevdb.Message
	for _, o := range sortedOffsets(offs) {
		if x, ok := e.M.Find(o); ok {
			out = append(out, klevdb.Message{Offset: o, Time: time.UnixMicro(x.TS).UTC(), Key: x.K, Value: x.V})
		} else {
			out = append(out, klevdb.Message{Offset: o, Time: time.UnixMicro(-1)})
		}
	}
	return out
}

func (e *Env) applyDelete(op Op) {
	set := offsetSet(op.Offsets)
	if len(set) == 0 && e.Step%2 == 0 {
		set = nil // "an empty set": the nil map is one
	}
	pre := e.M.Clone()
	var segsBefore []SegInfo
	if e.own("delete") || e.own("version") {
		var err error
		segsBefore, err = ReadSegs(e.Dir)
		if err != nil {
			e.failf("err", "reading segments before delete: %v", err)
		}
	}
	relative := false
	for _, o := range op.Offsets {
		if o < 0 {
			relative = true
		}
	}
	del, dsz, err := e.callDelete(op.Variant, set, op.FailAt)
	tag := "delete"
	if err != nil && op.FailAt > 0 && injected(err) {
		// the back-off failed: the call reports what it deleted so far together with the error; the report must be
		// complete (everything else is still there: the scans of the next observation hold the log to the model)
		e.flag("multi-interrupted")
		e.St.Inc("multi_calls_interrupted_by_backoff")
		e.applyDeleted(tag, del, set)
		if len(del) > 0 {
			e.flag("deleted")
			if del[len(del)-1].Offset == pre.Next-1 || (len(pre.Live) > 0 && len(e.M.Live) == 0) {
				e.flag("taildel")
			}
			if len(e.M.Live) == 0 {
				e.flag("emptied")
			}
		}
		e.scanCheck(e.L, tag, "after an interrupted DeleteMulti")
		return
	}
	if err != nil {
		if !errors.Is(err, klevdb.ErrNotFound) && !errors.Is(err, klevdb.ErrInvalidOffset) {
			e.failf("err", "Delete(%v) failed: %v", op.Offsets, err)
		}
		if e.own(tag) {
			if relative && !errors.Is(err, klevdb.ErrInvalidOffset) {
				e.failf(tag, "Delete with a relative offset returned %v, want ErrInvalidOffset", err)
			}
			if len(del) > 0 && op.Variant == 0 {
				e.failf(tag, "Delete returned an error and %d messages", len(del))
			}
		}
	} else if relative && e.own(tag) {
		e.failf(tag, "Delete(%v) with a relative offset succeeded", op.Offsets)
	}
	if len(set) == 0 && e.own(tag) && (len(del) != 0 || dsz != 0 || err != nil) {
		e.failf(tag, "Delete of the empty set returned %d msgs, size %d, err %v", len(del), dsz, err)
	}
	e.applyDeleted(tag, del, set)
	if len(del) > 0 {
		e.flag("deleted")
		if del[len(del)-1].Offset == pre.Next-1 || (len(pre.Live) > 0 && len(e.M.Live) == 0) {
			e.flag("taildel")
		}
		if len(e.M.Live) == 0 {
			e.flag("emptied")
		}
	}
	if e.own(tag) && err == nil && !relative {
		// exact size: sum of record sizes in the version of the file that held each record + index item
		var want int64
		for _, d := range del {
			si := SegOf(segsBefore, d.Offset)
			if si < 0 {
				e.failf(tag, "deleted offset %d was in no segment file before the call", d.Offset)
			}
			want += RefSize(segsBefore[si].V2, d.Key, d.Value) + RefItemSize(e.Cfg.KeyIndex, e.Cfg.TimeIndex)
		}
		if want != dsz {
			e.failf(tag, "Delete(%v) reported size %d, the %d deleted records occupied %d", op.Offsets, dsz, len(del), want)
		}
		// DeleteMulti over live offsets removes all of them
		if op.Variant >= 1 {
			allLive := len(set) > 0
			for o := range set {
				if _, live := pre.Find(o); !live {
					allLive = false
				}
			}
			// the property speaks of a set of live offsets: a set that also names dead offsets may stop early
			if allLive {
				e.St.Inc("deletemulti_all_live")
				for o := range set {
					if _, still := e.M.Find(o); still {
						e.failf(tag, "DeleteMulti over the live offsets %v left %d", op.Offsets, o)
					}
				}
			}
		}
		// deleting again deletes nothing
		if len(del) > 0 && e.Step%3 == 0 {
			del2, sz2, err2 := e.callDelete(op.Variant, set)
			if len(del2) != 0 || sz2 != 0 {
				e.failf(tag, "repeating Delete(%v) deleted %v again", op.Offsets, msgOffsets(del2))
			}
			if err2 != nil && !errors.Is(err2, klevdb.ErrNotFound) && !errors.Is(err2, klevdb.ErrInvalidOffset) {
				e.failf("err", "repeated Delete failed: %v", err2)
			}
		}
		e.classifyDelete(segsBefore, del)
	}
	if e.own("version") && err == nil && op.Variant == 0 && len(del) > 0 {
		e.checkRewriteVersion(segsBefore, del)
	}
	if e.own("version") && len(del) > 0 {
		// a new, empty head that the delete had to create is a new segment: NewSegmentsVersion, whatever it replaces
		was := map[string]bool{}
		for _, sg := range segsBefore {
			was[sg.Name+".log"] = true
		}
		if segsAfter, rerr := ReadSegs(e.Dir); rerr == nil {
			for _, sg := range segsAfter {
				if !was[sg.Name+".log"] && len(sg.Recs) == 0 {
					e.checkFileVersion("version", sg.Name+".log", e.Opts.V1, "empty head segment created by a delete of the newest messages")
					e.St.Inc("empty_heads_created_by_delete_checked_for_version")
				}
			}
		}
	}
	_ = pre
}

// classifyDelete records which structural outcome a delete had (evidence only).
func (e *Env) classifyDelete(before []SegInfo, del []klevdb.Message) {
	if len(del) == 0 {
		return
	}
	si := SegOf(before, del[0].Offset)
	if si < 0 {
		return
	}
	sg := before[si]
	dl := map[int64]bool{}
	for _, d := range del {
		dl[d.Offset] = true
	}
	surv := 0
	first := int64(-1)
	for _, r := range sg.Recs {
		if !dl[r.Off] {
			if first < 0 {
				first = r.Off
			}
			surv++
		}
	}
	head := si == len(before)-1
	kind := "same-base"
	switch {
	case surv == 0:
		kind = "emptied"
	case first != sg.Base:
		kind = "rebased"
	}
	role := "reader"
	if head {
		role = "head"
		if dl[sg.Recs[len(sg.Recs)-1].Off] {
			kind += "+tail"
		}
	}
	e.St.Inc("delete." + role + "." + kind)
	e.flag("del." + role + "." + kind)
}

func (e *Env) checkRewriteVersion(before []SegInfo, del []klevdb.Message) {
	si := SegOf(before, del[0].Offset)
	if si < 0 {
		return
	}
	sg := before[si]
	dl := map[int64]bool{}
	for _, d := range del {
		dl[d.Offset] = true
	}
	firstSurv := int64(-1)
	for _, r := range sg.Recs {
		if !dl[r.Off] {
			firstSurv = r.Off
			break
		}
	}
	after, err := ReadSegs(e.Dir)
	if err != nil {
		e.failf("err", "reading segments after delete: %v", err)
	}
	wantV2 := !e.Opts.V1
	if e.Opts.Keep {
		wantV2 = sg.V2
	}
	for _, a := range after {
		if firstSurv >= 0 && a.Base == firstSurv {
			if a.V2 != wantV2 && !a.Empty {
				e.failf("version", "segment %d rewritten by Delete has V2=%v, want V2=%v (KeepRewriteVersion=%v, before V2=%v, NewSegmentsVersion V1=%v)", a.Base, a.V2, wantV2, e.Opts.Keep, sg.V2, e.Opts.V1)
			}
			continue
		}
		for _, b := range before {
			if b.Base == a.Base && b.Base != sg.Base && len(b.Recs) > 0 && b.V2 != a.V2 {
				e.failf("version", "segment %d was not touched by the delete but changed version", a.Base)
			}
		}
	}
}

func snapshotDir(dir string) map[string][]byte {
	m := map[string][]byte{}
	es, _ := os.ReadDir(dir)
	for _, en := range es {
		if en.Name() == ".lock" || en.IsDir() {
			continue
		}
		b, err := os.ReadFile(filepath.Join(dir, en.Name()))
		if err == nil {
			m[en.Name()] = b
		}
	}
	return m
}

func restoreDir(dir string, files map[string][]byte) {
	_ = os.RemoveAll(dir)
	_ = os.MkdirAll(dir, 0700)
	for n, b := range files {
		_ = os.WriteFile(filepath.Join(dir, n), b, 0600)
	}
}

func sameFiles(a, b map[string][]byte) string {
	for n, x := range a {
		y, ok := b[n]
		if !ok {
			return "file " + n + " disappeared"
		}
		if string(x) != string(y) {
			return "file " + n + " changed"
		}
	}
	for n := range b {
		if _, ok := a[n]; !ok {
			return "file " + n + " appeared"
		}
	}
	return ""
}

// sameFilesExceptNewIndex: every file that existed is unchanged; the only files that may appear are
// index files that were missing (derived data, rebuilt lazily by any access to the segment).
func sameFilesExceptNewIndex(a, b map[string][]byte) string {
	for n, x := range a {
		y, ok := b[n]
		if !ok {
			return "file " + n + " disappeared"
		}
		if string(x) != string(y) {
			if strings.HasSuffix(n, ".index") && len(x) <= 8 && len(y) > len(x) {
				continue // an index without items was rebuilt, like a missing one
			}
			return "file " + n + " changed"
		}
	}
	for n := range b {
		if _, ok := a[n]; !ok && !strings.HasSuffix(n, ".index") {
			return "file " + n + " appeared"
		}
	}
	return ""
}

func (e *Env) closeLog() {
	e.must("Close", e.L.Close())
	e.closed = true
}

func (e *Env) openLog(o OpenOpts) {
	l, err := klevdb.Open(e.openPath(), o.Options(e.Cfg))
	e.must(fmt.Sprintf("Open(%+v)", o), err)
	e.L = l
	e.closed = false
	e.Opts = o
	if e.own("next") {
		n, err := l.NextOffset()
		e.must("NextOffset after open", err)
		if n != e.M.Next {
			e.failf("next", "NextOffset after reopen is %d, want %d", n, e.M.Next)
		}
	}
}

func (e *Env) applyReopen(op Op) {
	e.closeLog()
	e.atClose()
	if op.CutIdx {
		e.emptyIndexFiles(op.RmIdx)
	}
	for _, n := range op.RmIdx {
		if op.CutIdx {
			break
		}
		if err := os.Remove(filepath.Join(e.Dir, n)); err == nil {
			e.flag("rmidx")
			e.St.Inc("index_files_removed")
		}
	}
	if len(op.Cold) > 0 {
		// "cold storage": the file lives elsewhere, the directory entry is a symbolic link to it
		cold := filepath.Join(e.Root, "cold")
		_ = os.MkdirAll(cold, 0700)
		for _, n := range op.Cold {
			src := filepath.Join(e.Dir, n)
			if fi, err := os.Lstat(src); err != nil || !fi.Mode().IsRegular() {
				continue
			}
			e.coldSeq++
			dst := filepath.Join(cold, fmt.Sprintf("%d-%s", e.coldSeq, n))
			if err := os.Rename(src, dst); err != nil {
				panic(err)
			}
			if err := os.Symlink(dst, src); err != nil {
				panic(err)
			}
			e.flag("cold-link")
			e.St.Inc("segment_files_replaced_by_symlinks")
		}
	}
	mixedBefore := e.mixedVersions()
	e.openLog(*op.Opts)
	e.flag("reopen")
	if e.flags["taildel"] {
		e.flag("taildel-reopen")
	}
	if op.Opts.Recover {
		e.flag("open-recover")
	}
	if op.Opts.Check {
		e.flag("open-check")
	}
	if op.Opts.Eager && e.own("version") {
		names, _ := listLogs(e.Dir)
		for _, n := range names {
			e.checkFileVersion("version", n, op.Opts.V1, "after open with EagerVersionMigrate")
		}
		if mixedBefore {
			e.flag("mixed-then-migrate")
		}
	}
}

func (e *Env) mixedVersions() bool {
	segs, err := ReadSegs(e.Dir)
	if err != nil {
		return false
	}
	v1, v2 := false, false
	for _, s := range segs {
		if s.Empty || len(s.Recs) == 0 {
			continue
		}
		if s.V2 {
			v2 = true
		} else {
			v1 = true
		}
	}
	if v1 && v2 {
		e.flag("mixed")
	}
	return v1 && v2
}

// atClose runs the C11 oracles on the closed directory.
func (e *Env) atClose() {
	// an index file this harness cut to its header and that no call has needed since is still without items: for the
	// oracles below that is a missing index, not a wrong one
	for n := range e.cutNames {
		p := filepath.Join(e.Dir, n)
		if fi, err := os.Stat(p); err == nil && fi.Size() <= 8 {
			_ = os.Remove(p)
		}
	}
	e.cutNames = nil
	if e.own("index") {
		if err := CheckClosedDir(e.Dir, e.Cfg.KeyIndex, e.Cfg.TimeIndex, e.M.Mono); err != nil {
			e.failf("index", "closed directory: %v", err)
		}
		e.St.Inc("closed_dirs_checked")
	}
	if e.own("rmidx") {
		e.removalDifferential()
	}
	if e.own("layout") {
		if err := CheckIndexLayout(e.Dir, e.Cfg.KeyIndex, e.Cfg.TimeIndex); err != nil {
			e.failf("layout", "closed directory: %v", err)
		}
		e.St.Inc("closed_dirs_layout_checked")
	}
}

// removalDifferential: copy the closed directory, remove subsets of index files, reopen RW or RO
// and compare every query with the model (which the original handle was compared with after every step).
func (e *Env) removalDifferential() {
	files := snapshotDir(e.Dir)
	var idx []string
	for n := range files {
		if strings.HasSuffix(n, ".index") {
			idx = append(idx, n)
		}
	}
	sort.Strings(idx)
	if len(idx) == 0 {
		return
	}
	var subsets [][]string
	subsets = append(subsets, idx) // all
	for _, n := range idx {        // each single one
		subsets = append(subsets, []string{n})
	}
	if thoroughTier() && len(idx) > 2 {
		// deterministic pseudo-random subsets derived from the step number
		x := uint64(e.Step)*0x9E3779B97F4A7C15 + uint64(len(idx))
		for k := 0; k < 3; k++ {
			var sub []string
			for i, n := range idx {
				x ^= x << 13
				x ^= x >> 7
				x ^= x << 17
				if (x>>uint(i%60))&1 == 1 {
					sub = append(sub, n)
				}
			}
			if len(sub) > 0 && len(sub) < len(idx) {
				subsets = append(subsets, sub)
			}
		}
	}
	work := filepath.Join(e.Root, "rmidx")
	defer os.RemoveAll(work)
	for si, sub := range subsets {
		restoreDir(work, files)
		for _, n := range sub {
			_ = os.Remove(filepath.Join(work, n))
		}
		ro := (si+e.Step)%2 == 0
		o := e.Opts
		o.Check, o.Recover, o.Eager = false, false, false
		opts := o.Options(e.Cfg)
		opts.Readonly = ro
		l, err := klevdb.Open(work, opts)
		if err != nil {
			e.failf("rmidx", "open (readonly=%v) after removing index files %v: %v", ro, sub, err)
		}
		func() {
			defer l.Close()
			e.observe(l, work, "rmidx", fmt.Sprintf("after removing %v (readonly=%v)", sub, ro))
		}()
		e.St.Inc("index_removal_reopens")
		if len(idx) >= 2 && !(len(sub) == 1 && sub[0] == idx[len(idx)-1]) {
			e.flag("rm-nonhead-index")
		}
	}
}

func (e *Env) applyMigrate(op Op) {
	e.closeLog()
	mixed := e.mixedVersions()
	v := klevdb.V2
	if op.ToV1 {
		v = klevdb.V1
	}
	opts := e.Opts.Options(e.Cfg)
	e.must("Migrate", klevdb.Migrate(e.Dir, opts, v))
	e.flag("migrate")
	if mixed {
		e.flag("mixed-then-migrate")
	}
	if e.own("migrate") || e.own("version") {
		names, _ := listLogs(e.Dir)
		for _, n := range names {
			e.checkFileVersion("version", n, op.ToV1, "after Migrate")
		}
		snap := snapshotDir(e.Dir)
		e.must("second Migrate", klevdb.Migrate(e.Dir, opts, v))
		if d := sameFiles(snap, snapshotDir(e.Dir)); d != "" {
			e.failf("migrate", "migrating twice is not the same as once: %s", d)
		}
	}
	e.atClose()
	o := e.Opts
	o.Check, o.Recover = false, false
	e.openLog(o)
}

func (e *Env) missingIndexFiles() bool {
	segs, err := ReadSegs(e.Dir)
	if err != nil {
		return true
	}
	for _, sg := range segs {
		if !sg.HasIdx {
			return true
		}
		if len(sg.Recs) > 0 && sg.IdxLen <= 8 {
			return true // an index without items next to a log with records: to be rebuilt, like a missing one
		}
	}
	return false
}

// emptyIndexFiles cuts the named index files back to their header (nothing at all for the V1 container): an index
// without items, which every open path treats like a missing one.
func (e *Env) emptyIndexFiles(names []string) {
	for _, n := range names {
		p := filepath.Join(e.Dir, n)
		b, err := os.ReadFile(p)
		if err != nil {
			continue
		}
		keep := 0
		if IsV2Index(b) {
			keep = 8
		}
		if len(b) > keep {
			if err := os.WriteFile(p, b[:keep], 0600); err == nil {
				e.flag("rmidx")
				e.St.Inc("index_files_cut_to_their_header")
				if e.cutNames == nil {
					e.cutNames = map[string]bool{}
				}
				e.cutNames[n] = true
			}
		}
	}
}

func (e *Env) canCheck() bool { return !e.Cfg.TimeIndex || e.M.Mono }

func (e *Env) applyPkg(op Op) {
	e.closeLog()
	opts := e.Opts.Options(e.Cfg)
	switch op.Sub {
	case "recover":
		if e.canCheck() {
			snap := snapshotDir(e.Dir)
			e.must("package Recover", klevdb.Recover(e.Dir, opts))
			if e.own("scan") || e.own("index") {
				if d := sameFiles(snap, snapshotDir(e.Dir)); d != "" {
					e.failf("scan", "Recover on a cleanly closed log changed it: %s", d)
				}
			}
		}
	case "check":
		if e.canCheck() {
			e.must("package Check", klevdb.Check(e.Dir, opts))
		}
	case "stat":
		if e.missingIndexFiles() {
			// package-level Stat reads the index files as they are; no property promises it rebuilds
			// missing ones (that is promised for an opened log only), so this is outside the domain
			e.St.Inc("pkg_stat_skipped_missing_index")
			break
		}
		st, err := klevdb.Stat(e.Dir, opts)
		e.must("package Stat", err)
		if e.own("stat") {
			e.checkStat("stat", st, e.Dir, "package Stat")
		}
	}
	o := e.Opts
	o.Check, o.Recover = false, false
	e.openLog(o)
}

func (e *Env) checkStat(tag string, st klevdb.Stats, dir, what string) {
	if st.Messages != len(e.M.Live) {
		e.failf(tag, "%s: Messages=%d, live messages %d", what, st.Messages, len(e.M.Live))
	}
	names, _ := listLogs(dir)
	if st.Segments != len(names) {
		e.failf(tag, "%s: Segments=%d, log files %d", what, st.Segments, len(names))
	}
	if sz := dirDataSize(dir); st.Size != sz {
		e.failf(tag, "%s: Size=%d, segment files total %d", what, st.Size, sz)
	}
}

// oldBackup: a backup taken earlier and the log content at the time of that call. A backup must stay
// what it was when the source moves on (it is a copy, not a view).
type oldBackup struct {
	dir string
	m   *Model
}

// recheckBackups re-opens (read-only) the backups taken earlier in this case and compares them with the
// content the source had at the time of their Backup call.
func (e *Env) recheckBackups(except string) {
	if !e.own("backup") {
		return
	}
	for _, ob := range e.bkOld {
		if ob.dir == except {
			continue
		}
		o := e.Opts
		o.Check, o.Recover, o.Eager = false, false, false
		opts := o.Options(e.Cfg)
		opts.Readonly = true
		b, err := klevdb.Open(ob.dir, opts)
		if err != nil {
			e.failf("backup", "re-opening an earlier backup failed: %v", err)
		}
		ve := *e
		ve.M = ob.m
		func() {
			defer b.Close()
			ve.observeWith(b, ob.dir, obsTags{next: "backup", scan: "backup", get: "backup", key: "backup", time: "backup", stat: "backup"}, "earlier backup after the source moved on")
		}()
		e.St.Inc("earlier_backups_rechecked")
	}
}

func (e *Env) applyBackup(op Op) {
	// destination: a fresh directory, or the previous one if only publishes happened since
	dst := e.bkDir
	reuse := dst != "" && !op.Fresh
	if op.Wipe && e.bkLast != "" && op.Variant != 2 {
		// backup rotation: the same path as last time, emptied
		dst, reuse = e.bkLast, false
		_ = os.RemoveAll(dst)
		_ = os.MkdirAll(dst, 0700)
		e.flag("backup-wiped-same-path")
		e.St.Inc("backup_into_wiped_previous_directory")
	} else if !reuse {
		e.bkSeq++
		dst = filepath.Join(e.Root, fmt.Sprintf("backup%d", e.bkSeq))
		if op.Variant == 0 || e.missingIndexFiles() {
			_ = os.MkdirAll(dst, 0700)
		}
	} else {
		e.flag("backup-repeat")
		e.St.Inc("backup_repeated")
	}
	segsBefore, _ := listLogs(dst)
	var src map[string][]byte
	var srcTimes map[string]time.Time
	if op.Variant == 2 {
		e.applyBackupRO(op)
		return
	}
	pkgLevel := op.Variant == 1
	if pkgLevel && e.missingIndexFiles() {
		// package-level Backup copies segment pairs as they are on disk; see applyPkg("stat")
		e.St.Inc("pkg_backup_skipped_missing_index")
		pkgLevel = false
	}
	if pkgLevel {
		e.closeLog()
	} else {
		// make the source stable for the byte comparison
		_, err := e.L.Sync()
		e.must("Sync", err)
	}
	src = snapshotDir(e.Dir)
	srcTimes = mtimes(e.Dir)
	var err error
	if pkgLevel {
		err = klevdb.Backup(e.Dir, dst)
	} else {
		err = e.L.Backup(dst)
	}
	e.must("Backup", err)
	if e.own("backup") {
		if d := sameFilesExceptNewIndex(src, snapshotDir(e.Dir)); d != "" {
			e.failf("backup", "Backup changed the source: %s", d)
		}
		for n, t0 := range srcTimes {
			if t1, ok := mtimes(e.Dir)[n]; ok && !t1.Equal(t0) {
				if strings.HasSuffix(n, ".index") && len(src[n]) <= 8 {
					continue // an index without items was rebuilt
				}
				e.failf("backup", "Backup changed the modification time of source file %s", n)
			}
		}
		o := e.Opts
		o.Check, o.Recover, o.Eager = false, false, false
		bopts := o.Options(e.Cfg)
		if e.canCheck() {
			if err := klevdb.Check(dst, bopts); err != nil {
				e.failf("backup", "Check of the backup failed: %v", err)
			}
		}
		b, err := klevdb.Open(dst, bopts)
		if err != nil {
			e.failf("backup", "opening the backup failed: %v", err)
		}
		func() {
			defer b.Close()
			e.observe(b, dst, "backup", "backup")
		}()
		segsAfter, _ := listLogs(dst)
		if reuse && len(segsAfter) > len(segsBefore) {
			e.flag("backup-repeat-rollover")
		}
		if e.flags["taildel"] || e.flags["del.head.rebased"] || e.flags["del.reader.rebased"] {
			e.flag("backup-after-structural")
		}
	}
	if pkgLevel {
		o := e.Opts
		o.Check, o.Recover = false, false
		e.openLog(o)
	}
	// opening the backup read-write may have touched it (index rebuild is derived data only); it stays reusable
	e.bkDir = dst
	e.bkLast = dst
	if e.own("backup") {
		e.recheckBackups(dst)
		kept := e.bkOld[:0]
		for _, ob := range e.bkOld {
			if ob.dir != dst {
				kept = append(kept, ob)
			}
		}
		e.bkOld = append(kept, oldBackup{dst, e.M.Clone()})
		if len(e.bkOld) > 3 {
			e.bkOld = e.bkOld[len(e.bkOld)-3:]
		}
	}
}

// applyBackupRO: Backup through a read-only handle, as the FIRST call on that handle, optionally with
// index files removed while the log was closed (the state a crash inside a delete or migrate leaves).
func (e *Env) applyBackupRO(op Op) {
	dst := e.bkDir
	reuse := dst != "" && !op.Fresh
	if !reuse {
		e.bkSeq++
		dst = filepath.Join(e.Root, fmt.Sprintf("backup%d", e.bkSeq))
		_ = os.MkdirAll(dst, 0700)
	} else {
		e.flag("backup-repeat")
		e.St.Inc("backup_repeated")
	}
	e.closeLog()
	if op.CutIdx {
		e.emptyIndexFiles(op.RmIdx)
	}
	for _, n := range op.RmIdx {
		if op.CutIdx {
			break
		}
		if err := os.Remove(filepath.Join(e.Dir, n)); err == nil {
			e.flag("rmidx")
		}
	}
	o := e.Opts
	o.Check, o.Recover, o.Eager = false, false, false
	opts := o.Options(e.Cfg)
	opts.Readonly = true
	r, err := klevdb.Open(e.openPath(), opts)
	e.must("read-only Open", err)
	berr := r.Backup(dst)
	cerr := r.Close()
	e.must("Backup through a read-only handle", berr)
	e.must("read-only Close", cerr)
	e.St.Inc("backup_via_readonly_handle")
	if e.own("backup") {
		bo := e.Opts
		bo.Check, bo.Recover, bo.Eager = false, false, false
		bopts := bo.Options(e.Cfg)
		if e.canCheck() {
			if err := klevdb.Check(dst, bopts); err != nil {
				e.failf("backup", "Check of the backup taken through a read-only handle failed: %v", err)
			}
		}
		b, err := klevdb.Open(dst, bopts)
		if err != nil {
			e.failf("backup", "opening the backup failed: %v", err)
		}
		func() {
			defer b.Close()
			e.observe(b, dst, "backup", "backup taken through a read-only handle")
		}()
	}
	ro := e.Opts
	ro.Check, ro.Recover = false, false
	e.openLog(ro)
	e.bkDir = dst
	e.bkLast = dst
	if e.own("backup") {
		e.recheckBackups(dst)
		kept := e.bkOld[:0]
		for _, ob := range e.bkOld {
			if ob.dir != dst {
				kept = append(kept, ob)
			}
		}
		e.bkOld = append(kept, oldBackup{dst, e.M.Clone()})
		if len(e.bkOld) > 3 {
			e.bkOld = e.bkOld[len(e.bkOld)-3:]
		}
	}
}

func mtimes(dir string) map[string]time.Time {
	m := map[string]time.Time{}
	es, _ := os.ReadDir(dir)
	for _, en := range es {
		if en.Name() == ".lock" {
			continue
		}
		if i, err := en.Info(); err == nil {
			m[en.Name()] = i.ModTime()
		}
	}
	return m
}

func (e *Env) applyRO(op Op) {
	e.closeLog()
	if op.CutIdx {
		e.emptyIndexFiles(op.RmIdx)
	}
	for _, n := range op.RmIdx {
		if op.CutIdx {
			break
		}
		if err := os.Remove(filepath.Join(e.Dir, n)); err == nil {
			e.flag("rmidx")
		}
	}
	logs := map[string][]byte{}
	for n, b := range snapshotDir(e.Dir) {
		if strings.HasSuffix(n, ".log") {
			logs[n] = b
		}
	}
	o := e.Opts
	// Recover on a read-only open must be harmless (a cleanly closed log needs no repair)
	o.Recover = e.Opts.Recover || op.Handles == 3
	if !e.canCheck() || op.CutIdx {
		// (an index without items is not "missing" for Check: it is an index that does not match its log)
		o.Check, o.Recover = false, false
	}
	opts := o.Options(e.Cfg)
	opts.Readonly = true
	n := op.Handles
	if n < 1 {
		n = 1
	}
	var hs []klevdb.Log
	for i := 0; i < n; i++ {
		r, err := klevdb.Open(e.openPath(), opts)
		e.must("read-only Open", err)
		hs = append(hs, r)
	}
	defer func() {
		for _, h := range hs {
			if h != nil {
				_ = h.Close()
			}
		}
	}()
	for i, r := range hs {
		// a read-only handle answers every query like the model (= like the read-write handle, which is
		// compared with the model after every step)
		if e.own("ro") {
			e.observe(r, e.Dir, "ro", fmt.Sprintf("read-only handle %d", i))
		} else {
			// other profiles: the read-only handle is held to the same owned oracles as the read-write one
			e.observeWith(r, e.Dir, e.ownTags(), fmt.Sprintf("read-only handle %d", i))
		}
		if e.own("ro") {
			if _, err := r.Publish([]klevdb.Message{{Key: []byte("x")}}); !errors.Is(err, klevdb.ErrReadonly) {
				e.failf("ro", "Publish on a read-only handle returned %v", err)
			}
			if _, _, err := r.Delete(map[int64]struct{}{0: {}}); !errors.Is(err, klevdb.ErrReadonly) {
				e.failf("ro", "Delete on a read-only handle returned %v", err)
			}
			// while read-only handles are open, a read-write open must fail
			if w, err := klevdb.Open(e.Dir, e.Opts.Options(e.Cfg)); err == nil {
				_ = w.Close()
				e.failf("ro", "read-write Open succeeded while a read-only handle is open")
			}
			if err := r.GC(0); err != nil {
				e.failf("ro", "GC on a read-only handle: %v", err)
			}
		}
		if (e.Step+i)%2 == 0 {
			// everything unloaded: the handle answers the same again
			e.must("GC on a read-only handle", r.GC(0))
			e.St.Inc("ro_handles_observed_again_after_gc")
			if e.own("ro") {
				e.observe(r, e.Dir, "ro", fmt.Sprintf("read-only handle %d after GC", i))
			} else {
				e.observeWith(r, e.Dir, e.ownTags(), fmt.Sprintf("read-only handle %d after GC", i))
			}
		}
	}
	for i, r := range hs {
		e.must("read-only Close", r.Close())
		hs[i] = nil
	}
	if e.own("ro") {
		for n, b := range snapshotDir(e.Dir) {
			if strings.HasSuffix(n, ".log") {
				if old, ok := logs[n]; !ok || string(old) != string(b) {
					e.failf("ro", "log file %s changed during a read-only session", n)
				}
				delete(logs, n)
			}
		}
		for n := range logs {
			e.failf("ro", "log file %s disappeared during a read-only session", n)
		}
	}
	if n >= 2 {
		e.flag("ro2")
	}
	e.flag("ro")
	o = e.Opts
	o.Check, o.Recover = false, false
	e.openLog(o)
}

func hexs(b []byte) string {
	if b == nil {
		return "nil"
	}
	return hex.EncodeToString(b)
}

var thoroughFlag = os.Getenv("VF_TIER") == "thorough"

func thoroughTier() bool { return thoroughFlag }
