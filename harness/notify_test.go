package vf

// C18: blocking consume. A cooperative scheduler owns every interleaving of the notifier's
// probe/park/broadcast steps: all pause points of pkg/notify and the blocking wrappers park the calling
// goroutine on a channel inside a testing/synctest bubble, so synctest.Wait() returns exactly when every
// goroutine is parked at a pause point, durably blocked in the notifier, or finished. Every scheduling
// choice is either a rapid draw (shrinks, replays) or an odometer digit (exhaustive enumeration).

import (
	"context"
	"encoding/json"
	"errors"
	"fmt"
	"os"
	"path/filepath"
	"runtime"
	"sort"
	"strings"
	"sync"
	"testing"
	"testing/synctest"

	"github.com/klev-dev/klevdb"
	"github.com/klev-dev/klevdb/pkg/notify"
	"github.com/klev-dev/klevdb/pkg/verifhook"
	"pgregory.net/rapid"
)

func goid() int64 {
	var buf [64]byte
	n := runtime.Stack(buf[:], false)
	var id int64
	for _, c := range buf[10:n] { // "goroutine 123 ["
		if c < '0' || c > '9' {
			break
		}
		id = id*10 + int64(c-'0')
	}
	return id
}

// blog abstracts the raw and the typed blocking wrappers.
type blog struct {
	publish        func(n int, key string) (int64, error)
	consumeB       func(ctx context.Context, off, max int64) (int64, []int64, error)
	consumeKeyB    func(ctx context.Context, key string, off, max int64) (int64, []int64, error)
	consume        func(off, max int64) (int64, []int64, error)
	consumeKey     func(key string, off, max int64) (int64, []int64, error)
	close          func() error
	notifyNextInit int64
	// noise: a call on the same handle that is neither Publish nor Close (Sync, GC, Stat, NextOffset, Delete, Consume,
	// Backup): no waiter may notice it
	noise func(kind int, scratch string) error
}

const noiseKinds = 7

var noiseNames = []string{"Sync", "GC", "Stat", "NextOffset", "Delete", "Consume", "Backup"}

// pausingLog is the Log the blocking wrapper is put around in half of the raw cases: the real log with pause points of
// the harness's own right after the calls a wrapper may make to learn where the log stands. WrapBlocking takes any Log,
// so this is plain use of the API; it lets the scheduler park a goroutine between "the wrapper has read NextOffset" and
// whatever the wrapper does with it.
type pausingLog struct{ klevdb.Log }

func (p *pausingLog) NextOffset() (int64, error) {
	n, err := p.Log.NextOffset()
	verifhook.Pause("inner.nextoffset.returned")
	return n, err
}

func (p *pausingLog) Publish(msgs []klevdb.Message) (int64, error) {
	n, err := p.Log.Publish(msgs)
	verifhook.Pause("inner.publish.returned")
	return n, err
}

func rawBlog(dir string, innerPauses bool) (*blog, error) {
	var l klevdb.BlockingLog
	var err error
	if innerPauses {
		var inner klevdb.Log
		if inner, err = klevdb.Open(dir, klevdb.Options{KeyIndex: true}); err == nil {
			l, err = klevdb.WrapBlocking(&pausingLog{inner})
		}
	} else {
		l, err = klevdb.OpenBlocking(dir, klevdb.Options{KeyIndex: true})
	}
	if err != nil {
		return nil, err
	}
	seq := 0
	offs := func(ms []klevdb.Message) []int64 { return msgOffsets(ms) }
	return &blog{
		publish: func(n int, key string) (int64, error) {
			msgs := make([]klevdb.Message, n)
			for i := range msgs {
				seq++
				msgs[i] = klevdb.Message{Key: []byte(key), Value: []byte(fmt.Sprintf("v%d", seq))}
			}
			return l.Publish(msgs)
		},
		consumeB: func(ctx context.Context, off, max int64) (int64, []int64, error) {
			n, ms, err := l.ConsumeBlocking(ctx, off, max)
			return n, offs(ms), err
		},
		consumeKeyB: func(ctx context.Context, key string, off, max int64) (int64, []int64, error) {
			n, ms, err := l.ConsumeByKeyBlocking(ctx, []byte(key), off, max)
			return n, offs(ms), err
		},
		consume: func(off, max int64) (int64, []int64, error) {
			n, ms, err := l.Consume(off, max)
			return n, offs(ms), err
		},
		consumeKey: func(key string, off, max int64) (int64, []int64, error) {
			n, ms, err := l.ConsumeByKey([]byte(key), off, max)
			return n, offs(ms), err
		},
		close: l.Close,
		noise: func(kind int, scratch string) error {
			var err error
			switch kind {
			case 0:
				_, err = l.Sync()
			case 1:
				err = l.GC(0)
			case 2:
				_, err = l.Stat()
			case 3:
				_, err = l.NextOffset()
			case 4:
				_, _, err = l.Delete(map[int64]struct{}{0: {}})
			case 5:
				_, _, err = l.Consume(klevdb.OffsetOldest, 1)
			case 6:
				_ = os.MkdirAll(scratch, 0700) // Log.Backup copies into an existing directory
				err = l.Backup(scratch)
			}
			return err
		},
	}, nil
}

func typedBlog(dir string) (*blog, error) {
	l, err := klevdb.OpenTBlocking(dir, klevdb.Options{KeyIndex: true}, klevdb.StringCodec, klevdb.StringCodec)
	if err != nil {
		return nil, err
	}
	seq := 0
	offs := func(ms []klevdb.TMessage[string, string]) []int64 {
		out := make([]int64, len(ms))
		for i, m := range ms {
			out[i] = m.Offset
		}
		return out
	}
	return &blog{
		publish: func(n int, key string) (int64, error) {
			msgs := make([]klevdb.TMessage[string, string], n)
			for i := range msgs {
				seq++
				msgs[i] = klevdb.TMessage[string, string]{Key: key, Value: fmt.Sprintf("v%d", seq)}
			}
			return l.Publish(msgs)
		},
		consumeB: func(ctx context.Context, off, max int64) (int64, []int64, error) {
			n, ms, err := l.ConsumeBlocking(ctx, off, max)
			return n, offs(ms), err
		},
		consumeKeyB: func(ctx context.Context, key string, off, max int64) (int64, []int64, error) {
			n, ms, err := l.ConsumeByKeyBlocking(ctx, key, false, off, max)
			return n, offs(ms), err
		},
		consume: func(off, max int64) (int64, []int64, error) {
			n, ms, err := l.Consume(off, max)
			return n, offs(ms), err
		},
		consumeKey: func(key string, off, max int64) (int64, []int64, error) {
			n, ms, err := l.ConsumeByKey(key, false, off, max)
			return n, offs(ms), err
		},
		close: l.Close,
		noise: func(kind int, scratch string) error {
			var err error
			switch kind {
			case 0:
				_, err = l.Sync()
			case 1:
				err = l.GC(0)
			case 2:
				_, err = l.Stat()
			case 3:
				_, err = l.NextOffset()
			case 4:
				_, _, err = l.Delete(map[int64]struct{}{0: {}})
			case 5:
				_, _, err = l.Consume(klevdb.OffsetOldest, 1)
			case 6:
				_ = os.MkdirAll(scratch, 0700) // Log.Backup copies into an existing directory
				err = l.Backup(scratch)
			}
			return err
		},
	}, nil
}

type nTask struct {
	id     int
	kind   string // wait, waitkey, pub, close
	off    int64
	max    int64
	key    string
	n      int
	gate   chan struct{}
	at     string
	done   bool
	start  int // logical time
	end    int
	cancel context.CancelFunc
	// results
	rnext int64
	rmsgs []int64
	rerr  error
	// what a plain Consume returned at the moment the waiter left the wait
	expSet  bool
	expNext int64
	expMsgs []int64
	expErr  error
	// state at call start
	logNextAtStart    int64
	cancelledAt       int
	closedBeforeStart bool
	notifyNextAtStart int64
}

func (t *nTask) String() string {
	return fmt.Sprintf("task%d %s off=%d max=%d key=%q n=%d at=%q done=%v -> (%d,%v,%v)", t.id, t.kind, t.off, t.max, t.key, t.n, t.at, t.done, t.rnext, t.rmsgs, t.rerr)
}

// chooser supplies scheduling decisions: rapid draws or odometer digits.
type chooser interface {
	choose(n int, label string) int
}

type rapidChooser struct {
	t   *rapid.T
	log []int
}

func (c *rapidChooser) choose(n int, label string) int {
	v := uni(c.t, n, label)
	c.log = append(c.log, v)
	return v
}

// actionChooser: a chooser that wants to see what the available actions are ("resume:<task>:<pause point>",
// "start-wait", "start-pub", "cancel:<task>:..", "close", "noise"); -1 = no opinion, draw as usual.
type actionChooser interface {
	chooseAction(descs []string) int
}

// macroChooser drives a schedule by macro steps instead of single resumes: "run task 2 until it stands at
// notify.wait.released", "let task 1 finish", "cancel task 0", "start a waiter". A uniformly random walk over single
// resumes practically never keeps one goroutine parked at one point while another one runs through five pause points;
// a walk over macro steps does it all the time. Every choice still ends up as an index in the ordinary choice log, so
// a failing schedule replays and shrinks like any other.
type macroChooser struct {
	rapidChooser
	steps []macroStep
	pos   int
}

type macroStep struct {
	kind  string // start-wait start-pub until finish cancel close
	task  int
	point string
}

func (m *macroChooser) pickIdx(i int) int {
	m.log = append(m.log, i)
	return i
}

func (m *macroChooser) chooseAction(descs []string) int {
	find := func(prefix string) int {
		for i, d := range descs {
			if d == prefix || strings.HasPrefix(d, prefix+":") {
				return i
			}
		}
		return -1
	}
	for m.pos < len(m.steps) {
		st := m.steps[m.pos]
		switch st.kind {
		case "start-wait", "start-pub", "close":
			m.pos++
			if i := find(st.kind); i >= 0 {
				return m.pickIdx(i)
			}
		case "cancel":
			m.pos++
			if i := find(fmt.Sprintf("cancel:%d", st.task)); i >= 0 {
				return m.pickIdx(i)
			}
		case "until":
			i := find(fmt.Sprintf("resume:%d", st.task))
			if i < 0 || strings.HasSuffix(descs[i], ":"+st.point) {
				m.pos++ // not parked at a pause point (finished, or inside select), or there already
				continue
			}
			return m.pickIdx(i)
		case "finish":
			i := find(fmt.Sprintf("resume:%d", st.task))
			if i < 0 {
				m.pos++
				continue
			}
			return m.pickIdx(i)
		default:
			m.pos++
		}
	}
	return -1
}

var waitPoints = []string{"notify.wait.fast", "notify.wait.acquired", "notify.wait.probed", "notify.wait.released", "blocking.consume.after-wait", "inner.nextoffset.returned"}
var pubPoints = []string{"blocking.publish.before-notify", "notify.set.acquired", "notify.set.stored", "notify.set.broadcast", "inner.publish.returned"}

// genMacroSteps: a structured random script. Tasks are numbered in the order they are started.
func genMacroSteps(t *rapid.T, c *NotifyCase) []macroStep {
	var steps []macroStep
	var kinds []string // kind of task i
	w, p := 0, 0
	add := func(s macroStep) { steps = append(steps, s) }
	randTask := func(kind string) int {
		var ids []int
		for i, k := range kinds {
			if k == kind {
				ids = append(ids, i)
			}
		}
		if len(ids) == 0 {
			return -1
		}
		return ids[uni(t, len(ids), "task")]
	}
	n := 6 + uni(t, 10, "n_macro")
	for i := 0; i < n; i++ {
		switch pick(t, []string{"start-wait", "start-wait", "start-pub", "start-pub", "until-w", "until-w", "until-p", "finish-w", "finish-p", "finish-p", "cancel"}, "macro") {
		case "start-wait":
			if w < c.W {
				w++
				kinds = append(kinds, "w")
				add(macroStep{kind: "start-wait"})
				// usually place it somewhere right away
				if id := len(kinds) - 1; uni(t, 4, "place") > 0 {
					if pt := pick(t, append(append([]string{}, waitPoints[:4]...), "park", "inner.nextoffset.returned"), "wpoint"); pt == "park" {
						add(macroStep{kind: "finish", task: id})
					} else {
						add(macroStep{kind: "until", task: id, point: pt})
					}
				}
			}
		case "start-pub":
			if p < c.P {
				p++
				kinds = append(kinds, "p")
				add(macroStep{kind: "start-pub"})
				if id := len(kinds) - 1; uni(t, 4, "place") > 0 {
					if pt := pick(t, append(append([]string{}, pubPoints...), "done", "done"), "ppoint"); pt == "done" {
						add(macroStep{kind: "finish", task: id})
					} else {
						add(macroStep{kind: "until", task: id, point: pt})
					}
				}
			}
		case "until-w":
			if id := randTask("w"); id >= 0 {
				add(macroStep{kind: "until", task: id, point: pick(t, waitPoints, "wpoint")})
			}
		case "until-p":
			if id := randTask("p"); id >= 0 {
				add(macroStep{kind: "until", task: id, point: pick(t, pubPoints, "ppoint")})
			}
		case "finish-w":
			if id := randTask("w"); id >= 0 {
				add(macroStep{kind: "finish", task: id})
			}
		case "finish-p":
			if id := randTask("p"); id >= 0 {
				add(macroStep{kind: "finish", task: id})
			}
		case "cancel":
			if id := randTask("w"); id >= 0 && c.Cancel {
				add(macroStep{kind: "cancel", task: id})
				add(macroStep{kind: "finish", task: id})
			}
		}
	}
	// everybody runs to the end (in start order), then whatever is left is drawn as usual
	for id := range kinds {
		add(macroStep{kind: "finish", task: id})
	}
	return steps
}

type listChooser struct {
	in   []int
	pos  int
	log  []int
	arit []int
}

func (c *listChooser) choose(n int, label string) int {
	v := 0
	if c.pos < len(c.in) {
		v = c.in[c.pos]
	}
	if v >= n {
		v = n - 1
	}
	c.pos++
	c.log = append(c.log, v)
	c.arit = append(c.arit, n)
	return v
}

type NotifyCase struct {
	Typed     bool  `json:"typed"`
	W         int   `json:"waiters"`
	P         int   `json:"publishers"`
	Prefill   int   `json:"prefill"`
	Existing  int   `json:"existing"` // messages already in the directory before the blocking wrapper is opened
	AllowKey  bool  `json:"allow_key"`
	Cancel    bool  `json:"allow_cancel"`
	Close     bool  `json:"allow_close"`
	FreeRun   bool  `json:"free_run"`
	Choices   []int `json:"choices"`
	MaxSteps  int   `json:"max_steps"`
	FixedOffs bool  `json:"fixed_offsets"` // exhaustive mode: every waiter waits at NextOffset
	// Noise: so many other calls (Sync, GC, Stat, NextOffset, Delete, Consume, Backup) may be placed anywhere in the schedule
	Noise int `json:"noise,omitempty"`
	// Inner: the raw wrapper is put around a Log with the harness's own pause points (pausingLog)
	Inner bool `json:"inner_pauses,omitempty"`
}

var pausePointsC18 = map[string]bool{
	"notify.wait.fast": true, "notify.wait.acquired": true, "notify.wait.probed": true, "notify.wait.released": true,
	"notify.set.acquired": true, "notify.set.stored": true, "notify.set.broadcast": true,
	"notify.close.acquired": true, "notify.close.broadcast": true,
	"blocking.publish.before-notify": true, "blocking.consume.after-wait": true,
	"inner.nextoffset.returned": true, "inner.publish.returned": true,
}

// runNotifySchedule runs one schedule inside the current synctest bubble. It returns the choice log and
// arities (for the odometer) and a violation message ("" = none).
func runNotifySchedule(c *NotifyCase, ch chooser, st *Stats) (viol string, interesting bool) {
	root := MkScratch("vf-c18-")
	defer os.RemoveAll(root)
	dir := filepath.Join(root, "log")
	_ = os.MkdirAll(dir, 0700)
	if c.Existing > 0 {
		// the wrapper must start from the log's NextOffset, not from 0
		pl, err := klevdb.Open(dir, klevdb.Options{KeyIndex: true})
		if err != nil {
			return "open: " + err.Error(), false
		}
		for i := 0; i < c.Existing; i++ {
			key, val := []byte("a"), []byte(fmt.Sprintf("e%d", i))
			if c.Typed {
				val = []byte(fmt.Sprintf("e%d", i))
			}
			if _, err := pl.Publish([]klevdb.Message{{Key: key, Value: val}}); err != nil {
				return "publish: " + err.Error(), false
			}
		}
		if err := pl.Close(); err != nil {
			return "close: " + err.Error(), false
		}
	}
	var l *blog
	var err error
	if c.Typed {
		l, err = typedBlog(dir)
	} else {
		l, err = rawBlog(dir, c.Inner)
	}
	if err != nil {
		return "open: " + err.Error(), false
	}
	var mu sync.Mutex
	byGo := map[int64]*nTask{}
	var tasks []*nTask
	clock := 0
	logNext := int64(c.Existing)    // NextOffset of the log (Log.Publish completed)
	notifyNext := int64(c.Existing) // largest offset a completed notify.Set has announced (starts at NextOffset)
	closeStarted, closeDone := false, false
	closeStartAt := -1
	var pubs []*nTask
	verifhook.SetPause(func(p string) {
		if !pausePointsC18[p] {
			return
		}
		g := goid()
		mu.Lock()
		tk := byGo[g]
		if tk != nil {
			tk.at = p
		}
		mu.Unlock()
		if tk == nil {
			return
		}
		<-tk.gate
	})
	defer verifhook.SetPause(nil)
	fail := func(format string, args ...any) string {
		s := fmt.Sprintf(format, args...) + "\n"
		for _, t := range tasks {
			s += "    " + t.String() + "\n"
		}
		return s
	}
	startTask := func(tk *nTask, f func()) {
		clock++
		tk.start = clock
		tk.id = len(tasks)
		tk.gate = make(chan struct{})
		tk.logNextAtStart = logNext
		tk.notifyNextAtStart = notifyNext
		tk.closedBeforeStart = closeDone
		tasks = append(tasks, tk)
		go func() {
			mu.Lock()
			byGo[goid()] = tk
			mu.Unlock()
			f()
			mu.Lock()
			tk.done = true
			tk.at = ""
			mu.Unlock()
		}()
		synctest.Wait()
	}
	resume := func(tk *nTask) {
		mu.Lock()
		at := tk.at
		tk.at = ""
		mu.Unlock()
		if at == "blocking.consume.after-wait" && !tk.expSet {
			// nothing else runs now: this is "what Consume returns at that moment"
			tk.expSet = true
			if tk.kind == "waitkey" {
				tk.expNext, tk.expMsgs, tk.expErr = l.consumeKey(tk.key, tk.off, tk.max)
			} else {
				tk.expNext, tk.expMsgs, tk.expErr = l.consume(tk.off, tk.max)
			}
		}
		tk.gate <- struct{}{}
		synctest.Wait()
	}
	noteDone := func() {
		for _, tk := range tasks {
			if tk.done && tk.end == 0 {
				clock++
				tk.end = clock
				if tk.kind == "pub" && tk.rerr == nil && tk.rnext > notifyNext {
					notifyNext = tk.rnext
				}
				if tk.kind == "close" {
					closeDone = true
				}
			}
		}
	}
	// oracle, evaluated after every scheduler step
	check := func() string {
		noteDone()
		anyParked := false
		for _, tk := range tasks {
			if !tk.done && tk.at != "" {
				anyParked = true
			}
		}
		for _, tk := range tasks {
			if tk.kind != "wait" && tk.kind != "waitkey" {
				continue
			}
			if tk.done {
				if tk.cancelledAt == -2 {
					continue // already judged
				}
				// never for nothing
				overlap := false
				for _, p := range pubs {
					if p.start <= tk.end && (p.end == 0 || p.end >= tk.start) {
						overlap = true
					}
				}
				closeOverlap := closeStarted && closeStartAt <= tk.end
				cancelled := tk.cancelledAt > 0 && tk.cancelledAt <= tk.end
				switch {
				case tk.rerr == nil || (!errors.Is(tk.rerr, context.Canceled) && !errors.Is(tk.rerr, notify.ErrOffsetNotifyClosed)):
					// returned from the wait without a wait error: needs a reason
					if !(tk.off < 0 || tk.off < logNext || overlap || closeOverlap) {
						return fail("waiter %d returned (%d,%v,%v) for nothing: offset %d >= NextOffset %d and no Publish, Close or cancel happened during the call", tk.id, tk.rnext, tk.rmsgs, tk.rerr, tk.off, logNext)
					}
					if tk.expSet {
						if errClass(tk.rerr) != errClass(tk.expErr) || (tk.rerr == nil && (tk.rnext != tk.expNext || fmt.Sprint(tk.rmsgs) != fmt.Sprint(tk.expMsgs))) {
							return fail("waiter %d returned (%d,%v,%v) but Consume at that moment returned (%d,%v,%v)", tk.id, tk.rnext, tk.rmsgs, tk.rerr, tk.expNext, tk.expMsgs, tk.expErr)
						}
					}
				case errors.Is(tk.rerr, context.Canceled):
					if !cancelled {
						return fail("waiter %d returned context.Canceled but its context was not cancelled", tk.id)
					}
				case errors.Is(tk.rerr, notify.ErrOffsetNotifyClosed):
					if !closeOverlap {
						return fail("waiter %d returned the closed error but Close was not called", tk.id)
					}
				}
				if tk.closedBeforeStart && tk.off >= tk.notifyNextAtStart && tk.off >= 0 && tk.rerr == nil {
					return fail("waiter %d started after Close at offset %d >= NextOffset %d and did not fail", tk.id, tk.off, tk.notifyNextAtStart)
				}
				tk.cancelledAt = -2
				continue
			}
			// still inside the call: only judged at FULL quiescence (nobody parked at a pause point; a parked
			// goroutine may hold the barrier token the waiter needs)
			if anyParked || tk.at != "" {
				continue
			}
			switch {
			case tk.off < 0:
				return fail("waiter %d at relative offset %d is blocked", tk.id, tk.off)
			case notifyNext > tk.off:
				return fail("lost wake-up: waiter %d at offset %d is still blocked although a completed Publish moved NextOffset to %d", tk.id, tk.off, notifyNext)
			case tk.cancelledAt > 0:
				return fail("waiter %d is still blocked although its context was cancelled", tk.id)
			case closeDone:
				return fail("waiter %d is still blocked although Close completed", tk.id)
			}
		}
		return ""
	}
	finish := func() {
		// release everything so the bubble can end
		for i := 0; i < 10000; i++ {
			var parked *nTask
			for _, tk := range tasks {
				if !tk.done && tk.at != "" {
					parked = tk
					break
				}
			}
			if parked == nil {
				break
			}
			resume(parked)
		}
		for _, tk := range tasks {
			if tk.cancel != nil {
				tk.cancel()
			}
		}
		synctest.Wait()
		if !closeStarted {
			_ = l.close()
		}
		synctest.Wait()
	}
	defer finish()

	// prefill (sequential, no waiters yet)
	for i := 0; i < c.Prefill; i++ {
		tk := &nTask{kind: "pub", n: 1, key: "a"}
		startTask(tk, func() { tk.rnext, tk.rerr = l.publish(tk.n, tk.key) })
		for !tk.done {
			resume(tk)
		}
		logNext++
		pubs = append(pubs, tk)
		noteDone()
	}
	wLeft, pLeft := c.W, c.P
	noiseLeft := c.Noise
	closeLeft := c.Close
	steps := c.MaxSteps
	if steps == 0 {
		steps = 80
	}
	for s := 0; s < steps; s++ {
		var parked []*nTask
		var cancellable []*nTask
		for _, tk := range tasks {
			if !tk.done && tk.at != "" {
				parked = append(parked, tk)
			}
			if !tk.done && tk.cancel != nil && tk.cancelledAt == 0 && c.Cancel {
				cancellable = append(cancellable, tk)
			}
		}
		type action struct {
			kind string
			tk   *nTask
		}
		var acts []action
		for _, tk := range parked {
			acts = append(acts, action{"resume", tk})
		}
		if wLeft > 0 {
			acts = append(acts, action{"start-wait", nil})
		}
		if pLeft > 0 && !closeStarted {
			acts = append(acts, action{"start-pub", nil})
		}
		for _, tk := range cancellable {
			acts = append(acts, action{"cancel", tk})
		}
		if noiseLeft > 0 && !closeStarted {
			acts = append(acts, action{"noise", nil})
		}
		if closeLeft && !closeStarted {
			// Close while a publisher is still inside Publish is a caller error (Publish on a closing log)
			busy := false
			for _, tk := range tasks {
				if tk.kind == "pub" && !tk.done {
					busy = true
				}
			}
			if !busy {
				acts = append(acts, action{"close", nil})
			}
		}
		if len(acts) == 0 {
			break
		}
		ai := -1
		if ac, ok := ch.(actionChooser); ok {
			descs := make([]string, len(acts))
			for i, x := range acts {
				descs[i] = x.kind
				if x.tk != nil {
					descs[i] = fmt.Sprintf("%s:%d:%s", x.kind, x.tk.id, x.tk.at)
				}
			}
			ai = ac.chooseAction(descs)
		}
		if ai < 0 {
			ai = ch.choose(len(acts), "action")
		}
		a := acts[ai]
		switch a.kind {
		case "resume":
			if a.tk.kind == "pub" && a.tk.at == "blocking.publish.before-notify" {
				interesting = interesting || hasWaiterInWindow(tasks)
			}
			resume(a.tk)
		case "start-wait":
			wLeft--
			tk := &nTask{kind: "wait", max: 10}
			if c.AllowKey && ch.choose(3, "bykey") == 2 {
				tk.kind = "waitkey"
				tk.key = []string{"a", "b"}[ch.choose(2, "key")]
			}
			if c.FixedOffs {
				tk.off = logNext
			} else {
				// below, at, above NextOffset, relative
				tk.off = []int64{logNext, logNext, logNext + 1, logNext - 1, klevdb.OffsetOldest, klevdb.OffsetNewest, logNext + 2, 0}[ch.choose(8, "offset")]
				if tk.off < -2 {
					tk.off = 0
				}
				tk.max = []int64{1, 10}[ch.choose(2, "max")]
			}
			ctx, cancel := context.WithCancel(context.Background())
			tk.cancel = cancel
			startTask(tk, func() {
				if tk.kind == "waitkey" {
					tk.rnext, tk.rmsgs, tk.rerr = l.consumeKeyB(ctx, tk.key, tk.off, tk.max)
				} else {
					tk.rnext, tk.rmsgs, tk.rerr = l.consumeB(ctx, tk.off, tk.max)
				}
			})
		case "start-pub":
			pLeft--
			tk := &nTask{kind: "pub", n: 1, key: "a"}
			if !c.FixedOffs {
				tk.n = []int{1, 1, 2, 0}[ch.choose(4, "batch")]
				tk.key = []string{"a", "b"}[ch.choose(2, "key")]
			}
			pubs = append(pubs, tk)
			logNext += int64(tk.n) // Log.Publish completes before the first pause point of the task
			startTask(tk, func() { tk.rnext, tk.rerr = l.publish(tk.n, tk.key) })
			if tk.rerr != nil {
				return fail("Publish failed: %v", tk.rerr), interesting
			}
		case "noise":
			noiseLeft--
			kind := ch.choose(noiseKinds, "noise_kind")
			tk := &nTask{kind: "noise", key: noiseNames[kind]}
			st.Inc("noise." + noiseNames[kind])
			for _, w := range tasks {
				if (w.kind == "wait" || w.kind == "waitkey") && !w.done {
					interesting = true
					st.Inc("noise_calls_with_a_waiter_inside_its_call")
					break
				}
			}
			startTask(tk, func() { tk.rerr = l.noise(kind, filepath.Join(root, fmt.Sprintf("bk%d", len(tasks)))) })
			if tk.done && tk.rerr != nil && !errors.Is(tk.rerr, klevdb.ErrNotFound) && !errors.Is(tk.rerr, klevdb.ErrInvalidOffset) {
				return fail("%s failed: %v", noiseNames[kind], tk.rerr), interesting
			}
		case "cancel":
			clock++
			a.tk.cancelledAt = clock
			a.tk.cancel()
			synctest.Wait()
			if a.tk.at != "" && a.tk.at != "blocking.consume.after-wait" {
				interesting = true
			}
		case "close":
			closeLeft = false
			closeStarted = true
			clock++
			closeStartAt = clock
			tk := &nTask{kind: "close"}
			interesting = interesting || hasWaiterInWindow(tasks)
			startTask(tk, func() { tk.rerr = l.close() })
		}
		if v := check(); v != "" {
			return v, interesting
		}
	}
	// drain to full quiescence and judge once more
	for i := 0; i < 10000; i++ {
		var parked *nTask
		for _, tk := range tasks {
			if !tk.done && tk.at != "" {
				parked = tk
				break
			}
		}
		if parked == nil {
			break
		}
		resume(parked)
		if v := check(); v != "" {
			return v, interesting
		}
	}
	if v := check(); v != "" {
		return v, interesting
	}
	for _, tk := range tasks {
		st.Inc("tasks." + tk.kind)
		if (tk.kind == "wait" || tk.kind == "waitkey") && !tk.done {
			st.Inc("waiters_left_blocked_legitimately")
		}
	}
	return "", interesting
}

// hasWaiterInWindow: some waiter is between acquiring the barrier token and parking on the broadcast channel.
func hasWaiterInWindow(tasks []*nTask) bool {
	for _, tk := range tasks {
		if (tk.kind == "wait" || tk.kind == "waitkey") && !tk.done {
			switch tk.at {
			case "notify.wait.fast", "notify.wait.acquired", "notify.wait.probed", "notify.wait.released":
				return true
			}
		}
	}
	return false
}

func genNotifyCase(t *rapid.T) *NotifyCase {
	return &NotifyCase{Typed: uni(t, 4, "typed") == 3, W: 1 + uni(t, 8, "W"), P: 1 + uni(t, 3, "P"), Prefill: uni(t, 3, "prefill"), Existing: pick(t, []int{0, 0, 1, 3}, "existing"),
		AllowKey: true, Cancel: rapid.Bool().Draw(t, "cancel"), Close: rapid.Bool().Draw(t, "close"), MaxSteps: 120,
		Noise: pick(t, []int{0, 0, 1, 2, 3}, "noise"), Inner: rapid.Bool().Draw(t, "inner")}
}

func TestC18(t *testing.T) {
	st := NewStats("C18")
	defer st.Write()
	var lastCase *NotifyCase
	var lastMsg string
	defer func() {
		if t.Failed() && lastCase != nil {
			path := WriteReplay("C18", "notify", &Violation{Oracle: "blocking", Msg: lastMsg}, lastCase)
			fmt.Printf("%s\nVIOLATION property=C18 replay=%s\n", lastMsg, path)
		}
	}()
	rapid.Check(t, func(rt *rapid.T) {
		c := genNotifyCase(rt)
		rapid.SyncTest(rt, func(t *rapid.T) {
			ch := &rapidChooser{t: t}
			v, interesting := runNotifySchedule(c, ch, st)
			c.Choices = ch.log
			if v != "" {
				lastCase, lastMsg = c, v
				t.Fatalf("%s", v)
			}
			st.Eval(1)
			if interesting {
				st.NonTrivial(mustJSON(c))
				st.Inc("schedules_with_step_inside_waiter_window")
				if st.WantSample() && len(c.Choices) < 60 {
					st.Sample(c)
				}
			}
		})
	})
}

// TestC18Macro: schedules drawn as macro steps (see macroChooser): all waiters at NextOffset, no prefill.
func TestC18Macro(t *testing.T) {
	st := NewStats("C18")
	defer st.Write()
	var lastCase *NotifyCase
	var lastMsg string
	defer func() {
		if t.Failed() && lastCase != nil {
			path := WriteReplay("C18", "notify", &Violation{Oracle: "blocking", Msg: lastMsg}, lastCase)
			fmt.Printf("%s\nVIOLATION property=C18 replay=%s\n", lastMsg, path)
		}
	}()
	rapid.Check(t, func(rt *rapid.T) {
		c := &NotifyCase{Typed: uni(rt, 4, "typed") == 3, W: 1 + uni(rt, 4, "W"), P: 1 + uni(rt, 3, "P"), Existing: pick(rt, []int{0, 0, 2}, "existing"),
			Cancel: uni(rt, 3, "cancel") > 0, Close: uni(rt, 4, "close") == 3, MaxSteps: 160, FixedOffs: true, Inner: rapid.Bool().Draw(rt, "inner")}
		rapid.SyncTest(rt, func(t *rapid.T) {
			ch := &macroChooser{rapidChooser: rapidChooser{t: t}}
			ch.steps = genMacroSteps(t, c)
			v, interesting := runNotifySchedule(c, ch, st)
			c.Choices = ch.log
			if v != "" {
				lastCase, lastMsg = c, v
				t.Fatalf("%s", v)
			}
			st.Eval(1)
			st.Inc("macro_schedules")
			if interesting {
				st.NonTrivial(mustJSON(c))
				st.Inc("schedules_with_step_inside_waiter_window")
				if st.WantSample() && len(c.Choices) < 60 {
					st.Sample(c)
				}
			}
		})
	})
}

// TestC18Exhaustive enumerates the whole choice tree of small configurations with an odometer.
func TestC18Exhaustive(t *testing.T) {
	st := NewStats("C18")
	defer st.Write()
	configs := []NotifyCase{
		{W: 1, P: 1, FixedOffs: true},
		{W: 1, P: 1, FixedOffs: true, Cancel: true},
		{W: 1, P: 1, FixedOffs: true, Close: true},
		{W: 1, P: 1, FixedOffs: true, Typed: true},
		{W: 1, P: 0, FixedOffs: true, Close: true, Cancel: true},
		{W: 1, P: 2, FixedOffs: true},
		{W: 1, P: 1, FixedOffs: true, Existing: 2},
		{W: 1, P: 0, FixedOffs: true, Existing: 2, Cancel: true},
		{W: 1, P: 0, FixedOffs: true, Existing: 1, Noise: 2},
		{W: 1, P: 1, FixedOffs: true, Noise: 1},
		{W: 1, P: 0, FixedOffs: true, Typed: true, Existing: 1, Noise: 1},
		{W: 1, P: 1, FixedOffs: true, Inner: true},
	}
	if thoroughTier() {
		configs = append(configs, NotifyCase{W: 2, P: 1, FixedOffs: true}, NotifyCase{W: 2, P: 1, FixedOffs: true, Close: true})
	}
	// largest configurations first so shards balance
	sort.SliceStable(configs, func(i, j int) bool {
		wi := configs[i].W*10 + configs[i].P*3 + b2i(configs[i].Close)*5 + b2i(configs[i].Cancel)
		wj := configs[j].W*10 + configs[j].P*3 + b2i(configs[j].Close)*5 + b2i(configs[j].Cancel)
		return wi > wj
	})
	shard, shards := envInt("VF_SHARD", 0), envInt("VF_SHARDS", 1)
	var spaces []string
	for ci, cfg := range configs {
		if ci%shards != shard {
			continue
		}
		cfg.MaxSteps = 200
		var choices []int
		count := 0
		for {
			c := cfg
			lc := &listChooser{in: choices}
			var v string
			var interesting bool
			synctest.Test(t, func(t *testing.T) {
				v, interesting = runNotifySchedule(&c, lc, st)
			})
			count++
			st.Eval(1)
			c.Choices = lc.log
			if v != "" {
				path := WriteReplay("C18", "notify", &Violation{Oracle: "blocking", Msg: v}, &c)
				fmt.Printf("%s\nVIOLATION property=C18 replay=%s\n", v, path)
				t.FailNow()
			}
			if interesting {
				st.NonTrivial(mustJSON(c))
				st.Inc("schedules_with_step_inside_waiter_window")
			}
			// odometer: advance the last digit that can be advanced
			next := append([]int{}, lc.log...)
			i := len(next) - 1
			for ; i >= 0; i-- {
				if next[i]+1 < lc.arit[i] {
					next[i]++
					next = next[:i+1]
					break
				}
			}
			if i < 0 {
				break
			}
			choices = next
		}
		spaces = append(spaces, fmt.Sprintf("W=%d P=%d cancel=%v close=%v typed=%v: %d schedules (complete choice tree)", cfg.W, cfg.P, cfg.Cancel, cfg.Close, cfg.Typed, count))
		st.Add("exhaustive_schedules", int64(count))
	}
	st.Exhaustive = true
	st.Space = fmt.Sprint(spaces)
}

func envInt(name string, def int) int {
	var v int
	if _, err := fmt.Sscanf(os.Getenv(name), "%d", &v); err != nil {
		return def
	}
	return v
}

func init() {
	replayers["notify"] = func(rf *ReplayFile) *Violation {
		var c NotifyCase
		if err := json.Unmarshal(rf.Case, &c); err != nil {
			return &Violation{Oracle: "replay", Msg: err.Error()}
		}
		replayNotify = &c
		return nil
	}
}

var replayNotify *NotifyCase

// TestReplayNotify runs a saved C18 schedule (needs a *testing.T for the synctest bubble).
func TestReplayNotify(t *testing.T) {
	path := os.Getenv("VF_REPLAY")
	if path == "" {
		t.Skip("VF_REPLAY not set")
	}
	rf, err := ReadReplay(path)
	if err != nil || rf.Engine != "notify" {
		t.Skip("not a notify replay")
	}
	var c NotifyCase
	if err := json.Unmarshal(rf.Case, &c); err != nil {
		t.Fatal(err)
	}
	var v string
	synctest.Test(t, func(t *testing.T) {
		v, _ = runNotifySchedule(&c, &listChooser{in: c.Choices}, NewStats("C18"))
	})
	if v != "" {
		fmt.Printf("%s\nVIOLATION property=C18 replay=%s\n", v, path)
		t.Fail()
	}
}

func b2i(b bool) int {
	if b {
		return 1
	}
	return 0
}

// TestC18Free: waiters and publishers free-running inside the bubble (no pause points, real
// parallelism); the oracle is evaluated at the final quiescence. Reaches windows without a pause point.
func TestC18Free(t *testing.T) {
	st := NewStats("C18")
	defer st.Write()
	rapid.Check(t, func(rt *rapid.T) {
		W, P := 1+uni(rt, 8, "W"), 1+uni(rt, 3, "P")
		typed := uni(rt, 4, "typed") == 3
		doClose := uni(rt, 3, "close") == 2
		offs := make([]int64, W)
		for i := range offs {
			offs[i] = int64(uni(rt, P+2, "off")) - 1
			if offs[i] < 0 {
				offs[i] = klevdb.OffsetOldest
			}
		}
		rapid.SyncTest(rt, func(t *rapid.T) {
			root := MkScratch("vf-c18f-")
			defer os.RemoveAll(root)
			var l *blog
			var err error
			if typed {
				l, err = typedBlog(root)
			} else {
				l, err = rawBlog(root, false)
			}
			if err != nil {
				t.Fatalf("open: %v", err)
			}
			type res struct {
				next int64
				msgs []int64
				err  error
				done bool
			}
			results := make([]res, W)
			ctx, cancel := context.WithCancel(context.Background())
			fatalf := func(format string, args ...any) {
				msg := fmt.Sprintf(format, args...)
				fmt.Printf("C18 free-running failure (W=%d P=%d offs=%v typed=%v close=%v): %s\n", W, P, offs, typed, doClose, msg)
				cancel()
				synctest.Wait()
				_ = l.close()
				synctest.Wait()
				t.Fatalf("%s", msg)
			}
			var wg sync.WaitGroup
			for i := 0; i < W; i++ {
				wg.Add(1)
				go func(i int) {
					defer wg.Done()
					n, ms, err := l.consumeB(ctx, offs[i], 10)
					results[i] = res{n, ms, err, true}
				}(i)
			}
			var pmu sync.Mutex
			for p := 0; p < P; p++ {
				wg.Add(1)
				go func() {
					defer wg.Done()
					pmu.Lock() // publishers of one log are serialised by the caller here; Publish itself is also safe concurrently
					defer pmu.Unlock()
					if _, err := l.publish(1, "a"); err != nil {
						panic(err)
					}
				}()
			}
			synctest.Wait()
			final := int64(P)
			for i := 0; i < W; i++ {
				r := results[i]
				if !r.done {
					if offs[i] < final {
						fatalf("lost wake-up (free-running): waiter %d at offset %d still blocked, NextOffset %d", i, offs[i], final)
					}
					continue
				}
				if r.err != nil {
					// woken by a publish that did not reach the offset: Consume(offset > NextOffset) is ErrInvalidOffset
					if errors.Is(r.err, klevdb.ErrInvalidOffset) && offs[i] > 0 {
						continue
					}
					fatalf("waiter %d at offset %d failed: %v", i, offs[i], r.err)
				}
				prev := offs[i]
				for _, o := range r.msgs {
					if o < prev || o >= final {
						fatalf("waiter %d at offset %d returned offsets %v", i, offs[i], r.msgs)
					}
					prev = o + 1
				}
				if len(r.msgs) > 0 && r.next != r.msgs[len(r.msgs)-1]+1 {
					fatalf("waiter %d next %d after %v", i, r.next, r.msgs)
				}
			}
			if doClose {
				if err := l.close(); err != nil {
					fatalf("close: %v", err)
				}
				synctest.Wait()
				for i := 0; i < W; i++ {
					if !results[i].done {
						fatalf("waiter %d still blocked after Close", i)
					}
				}
			}
			cancel()
			synctest.Wait()
			for i := 0; i < W; i++ {
				if !results[i].done {
					fatalf("waiter %d still blocked after cancel", i)
				}
			}
			wg.Wait()
			if !doClose {
				_ = l.close()
			}
			st.Eval(1)
			if W >= 2 {
				st.NonTrivialStr(fmt.Sprintf("free|%d|%d|%v|%v|%v", W, P, offs, typed, doClose))
			}
		})
	})
}
