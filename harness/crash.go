package vf

// Crash engine (C05, C06). A generated workload runs to completion while the FS tap
// (pkg/verifhook, build tag verif) snapshots the directory after every file-system step. Every
// snapshot is a crash image ("the process died right after step k"); torn variants cut the last
// append at intermediate lengths; depth-2 images come from running the recovery of an image under
// the tap again; power-loss images cut every file independently back towards its last fsynced length.

import (
	"bytes"
	"errors"
	"fmt"
	"os"
	"path/filepath"
	"sort"
	"strings"
	"time"

	"github.com/klev-dev/klevdb"
	"github.com/klev-dev/klevdb/pkg/verifhook"
)

type COp struct {
	Kind    string   `json:"op"` // publish, delete, reopen, reopen-recover, reopen-migrate, rmindex-reopen, pkg-migrate, pkg-recover, sync, gc
	Msgs    []MsgIn  `json:"msgs,omitempty"`
	Offsets []int64  `json:"offsets,omitempty"`
	ToV1    bool     `json:"to_v1,omitempty"`
	RmIdx   []string `json:"rmidx,omitempty"`
}

type CrashCase struct {
	Keys     bool  `json:"keys"`
	Times    bool  `json:"times"`
	Rollover int64 `json:"rollover"`
	V1       bool  `json:"v1"`
	Keep     bool  `json:"keep"`
	AutoSync bool  `json:"autosync"`
	Ops      []COp `json:"ops"`
	Power    bool  `json:"power"` // C06 mode
	// AnyTimes: message times are arbitrary (also decreasing); the time view of the recovered image is then
	// not judged (C10 defines it for non-decreasing times only), everything else is
	AnyTimes bool `json:"any_times,omitempty"`
}

func (c *CrashCase) options(v1 bool) klevdb.Options {
	o := klevdb.Options{KeyIndex: c.Keys, TimeIndex: c.Times, Rollover: c.Rollover, AutoSync: c.AutoSync}
	if v1 {
		o.Version.NewSegmentsVersion = klevdb.V1
	} else {
		o.Version.NewSegmentsVersion = klevdb.V2
	}
	o.Version.KeepRewriteVersion = c.Keep
	return o
}

type fsEvent struct {
	op, site, p1, p2 string // base names
}

func (e fsEvent) String() string {
	if e.p2 != "" {
		return fmt.Sprintf("%s@%s %s->%s", e.op, e.site, e.p1, e.p2)
	}
	return fmt.Sprintf("%s@%s %s", e.op, e.site, e.p1)
}

type crashSnap struct {
	files  map[string][]byte
	synced map[string]int // last fsynced length per file (power mode)
	ev     fsEvent
	opi    int
	ack    int64
	evInOp int
}

type opRec struct {
	op       COp
	before   []Msg
	after    []Msg
	inflight []Msg
	nextB    int64
	nextA    int64
	outcome  string // structural outcome of a delete
	preDir   map[string][]byte
	postDir  map[string][]byte
}

// CrashEnv runs one workload under the tap.
type CrashEnv struct {
	C     *CrashCase
	Root  string
	Dir   string
	Img   string
	L     klevdb.Log
	M     *Model
	St    *Stats
	CurV1 bool
	Ops   []opRec
	Snaps []crashSnap

	synced   map[string]int
	ack      int64
	capture  bool
	last     map[string][]byte
	opi      int
	evInOp   int
	HookGap  string // non-empty: a directory change no tap explains (run is inconclusive)
	subDir   string
	subSnaps []crashSnap
	Prop     string
	known    map[string]int
}

func NewCrashEnv(c *CrashCase, st *Stats, prop string) *CrashEnv {
	root := MkScratch("vf-crash-")
	e := &CrashEnv{C: c, Root: root, Dir: filepath.Join(root, "log"), Img: filepath.Join(root, "img"), M: NewModel(), St: st, CurV1: c.V1, synced: map[string]int{}, Prop: prop}
	_ = os.MkdirAll(e.Dir, 0700)
	return e
}

func (e *CrashEnv) Cleanup() {
	verifhook.SetFS(nil)
	if e.L != nil {
		_ = e.L.Close()
	}
	_ = os.RemoveAll(e.Root)
}

func cloneSynced(m map[string]int) map[string]int {
	c := make(map[string]int, len(m))
	for k, v := range m {
		c[k] = v
	}
	return c
}

// tap is the FS hook: snapshot after every step, track fsynced lengths, self-check hook coverage.
func (e *CrashEnv) tap(op, site, p1, p2 string) {
	if op == "fsync-begin" {
		return // nothing has changed yet; in these sequential workloads the size at the end of the fsync is the size at its start
	}
	if e.subDir != "" {
		if filepath.Dir(p1) == e.subDir {
			e.subSnaps = append(e.subSnaps, crashSnap{files: snapshotDir(e.subDir), ev: fsEvent{op, site, filepath.Base(p1), baseOrEmpty(p2)}})
		}
		return
	}
	if !e.capture || (filepath.Dir(p1) != e.Dir && p1 != e.Dir) {
		return
	}
	n1, n2 := filepath.Base(p1), baseOrEmpty(p2)
	switch op {
	case "fsync":
		if st, err := os.Stat(p1); err == nil {
			e.synced[n1] = int(st.Size())
		}
	case "rename":
		if v, ok := e.synced[n1]; ok {
			e.synced[n2] = v
		} else {
			delete(e.synced, n2)
		}
		delete(e.synced, n1)
	case "remove":
		delete(e.synced, n1)
	}
	cur := snapshotDir(e.Dir)
	ev := fsEvent{op, site, n1, n2}
	if gap := explainDiff(e.last, cur, ev); gap != "" && e.HookGap == "" {
		e.HookGap = fmt.Sprintf("after %v: %s", ev, gap)
	}
	e.last = cur
	e.evInOp++
	e.Snaps = append(e.Snaps, crashSnap{files: cur, synced: cloneSynced(e.synced), ev: ev, opi: e.opi, ack: e.ack, evInOp: e.evInOp})
}

func baseOrEmpty(p string) string {
	if p == "" {
		return ""
	}
	return filepath.Base(p)
}

// explainDiff returns "" when the difference between two consecutive directory snapshots is what the
// tapped event alone explains; otherwise a description of the unexplained change (missing hook).
func explainDiff(prev, cur map[string][]byte, ev fsEvent) string {
	if prev == nil {
		return ""
	}
	allowed := map[string]bool{}
	switch ev.op {
	case "open", "write", "remove":
		allowed[ev.p1] = true
	case "rename":
		allowed[ev.p1], allowed[ev.p2] = true, true
	}
	for n, b := range cur {
		if p, ok := prev[n]; !ok || !bytes.Equal(p, b) {
			if !allowed[n] {
				return fmt.Sprintf("file %s changed (len %d -> %d) without a tapped step", n, len(prev[n]), len(b))
			}
			if ev.op == "write" && ok && (len(b) < len(p) || !bytes.Equal(b[:len(p)], p)) {
				return fmt.Sprintf("file %s was not appended to (len %d -> %d)", n, len(p), len(b))
			}
		}
	}
	for n := range prev {
		if _, ok := cur[n]; !ok && !allowed[n] {
			return fmt.Sprintf("file %s disappeared without a tapped step", n)
		}
	}
	return ""
}

func (e *CrashEnv) install() {
	verifhook.SetFS(e.tap)
}

func (e *CrashEnv) checkOpBoundary(what string) {
	cur := snapshotDir(e.Dir)
	if e.last != nil {
		if d := sameFiles(e.last, cur); d != "" && e.HookGap == "" {
			e.HookGap = fmt.Sprintf("at the end of %s: %s since the last tapped step", what, d)
		}
	}
	e.last = cur
}

func (e *CrashEnv) must(what string, err error) {
	if err != nil {
		panic(&Violation{Oracle: "err", Msg: fmt.Sprintf("workload op %d: %s failed: %v", len(e.Ops), what, err)})
	}
}

func cloneMsgs(a []Msg) []Msg { return append([]Msg(nil), a...) }

func (e *CrashEnv) Start() {
	e.install()
	e.capture = true
	e.opi = 0
	e.last = snapshotDir(e.Dir)
	rec := opRec{op: COp{Kind: "create"}, preDir: e.last}
	l, err := klevdb.Open(e.Dir, e.C.options(e.CurV1))
	e.must("open", err)
	e.L = l
	e.checkOpBoundary("create")
	rec.postDir = e.last
	e.Ops = append(e.Ops, rec)
}

// Apply runs one workload operation to completion under the tap.
func (e *CrashEnv) Apply(op COp) {
	e.opi = len(e.Ops)
	e.evInOp = 0
	rec := opRec{op: op, before: cloneMsgs(e.M.Live), nextB: e.M.Next, preDir: e.last}
	opts := e.C.options(e.CurV1)
	switch op.Kind {
	case "publish":
		msgs := make([]klevdb.Message, len(op.Msgs))
		for i, in := range op.Msgs {
			msgs[i] = klevdb.Message{Time: time.UnixMicro(in.TS), Key: []byte(in.K), Value: []byte(in.V)}
			rec.inflight = append(rec.inflight, Msg{Off: e.M.Next + int64(i), TS: in.TS, K: in.K, V: in.V})
		}
		n, err := e.L.Publish(msgs)
		e.must("Publish", err)
		if n != e.M.Next+int64(len(msgs)) {
			e.must("Publish", fmt.Errorf("returned %d", n))
		}
		for _, x := range rec.inflight {
			e.M.Append(x)
		}
		if e.C.AutoSync {
			e.ack = n
		}
	case "delete":
		segs, _ := ReadSegs(e.Dir)
		del, _, err := e.L.Delete(offsetSet(op.Offsets))
		if err != nil && !errors.Is(err, klevdb.ErrNotFound) && !errors.Is(err, klevdb.ErrInvalidOffset) {
			e.must("Delete", err)
		}
		for _, d := range del {
			e.M.Remove(d.Offset)
		}
		rec.outcome = deleteOutcome(segs, del)
		e.St.Inc("workload.delete." + rec.outcome)
	case "reopen", "reopen-recover", "reopen-migrate", "rmindex-reopen", "reopen-switch":
		e.must("Close", e.L.Close())
		e.L = nil
		e.ack = e.M.Next
		if op.Kind == "rmindex-reopen" {
			e.capture = false
			for _, n := range op.RmIdx {
				_ = os.Remove(filepath.Join(e.Dir, n))
				delete(e.synced, n)
			}
			e.last = snapshotDir(e.Dir)
			rec.preDir = e.last
			e.capture = true
		}
		o := opts
		if op.Kind == "reopen-recover" {
			o.Recover = true
		}
		if op.Kind == "reopen-migrate" {
			e.CurV1 = op.ToV1
			o = e.C.options(e.CurV1)
			o.Version.EagerVersionMigrate = true
		}
		if op.Kind == "reopen-switch" {
			// the other NewSegmentsVersion WITHOUT migrating: segments of both versions from here on, and
			// index files rebuilt or rewritten from now on use the other container than their log
			e.CurV1 = op.ToV1
			o = e.C.options(e.CurV1)
			for _, n := range op.RmIdx {
				e.capture = false
				_ = os.Remove(filepath.Join(e.Dir, n))
				delete(e.synced, n)
				e.last = snapshotDir(e.Dir)
				rec.preDir = e.last
				e.capture = true
			}
		}
		l, err := klevdb.Open(e.Dir, o)
		e.must("Open", err)
		e.L = l
		if op.Kind == "rmindex-reopen" || (op.Kind == "reopen-switch" && len(op.RmIdx) > 0) {
			// first reads rebuild the removed index files lazily
			e.scanAll("after index removal")
		}
	case "pkg-migrate":
		e.must("Close", e.L.Close())
		e.L = nil
		e.ack = e.M.Next
		v := klevdb.V2
		if op.ToV1 {
			v = klevdb.V1
		}
		e.must("Migrate", klevdb.Migrate(e.Dir, opts, v))
		l, err := klevdb.Open(e.Dir, opts)
		e.must("Open", err)
		e.L = l
	case "pkg-recover":
		e.must("Close", e.L.Close())
		e.L = nil
		e.ack = e.M.Next
		e.must("Recover", klevdb.Recover(e.Dir, opts))
		l, err := klevdb.Open(e.Dir, opts)
		e.must("Open", err)
		e.L = l
	case "sync":
		n, err := e.L.Sync()
		e.must("Sync", err)
		if n != e.M.Next {
			e.must("Sync", fmt.Errorf("returned %d want %d", n, e.M.Next))
		}
		e.ack = n
	case "gc":
		e.must("GC", e.L.GC(0))
	default:
		panic("unknown crash op " + op.Kind)
	}
	e.checkOpBoundary(op.Kind)
	rec.after = cloneMsgs(e.M.Live)
	rec.nextA = e.M.Next
	rec.postDir = e.last
	e.Ops = append(e.Ops, rec)
	e.St.Inc("workload.op." + op.Kind)
}

func (e *CrashEnv) scanAll(what string) {
	got, err := scanLog(e.L)
	if err != nil {
		e.must("scan "+what, err)
	}
	if len(got) != len(e.M.Live) {
		e.must("scan "+what, fmt.Errorf("%d messages, model has %d", len(got), len(e.M.Live)))
	}
}

func (e *CrashEnv) Finish() {
	e.capture = false
	if e.L != nil {
		e.must("Close", e.L.Close())
		e.L = nil
	}
}

func deleteOutcome(before []SegInfo, del []klevdb.Message) string {
	if len(del) == 0 {
		return "none"
	}
	si := SegOf(before, del[0].Offset)
	if si < 0 {
		return "unknown"
	}
	sg := before[si]
	dl := map[int64]bool{}
	for _, d := range del {
		dl[d.Offset] = true
	}
	surv := 0
	first := int64(-1)
	for _, r := range sg.Recs {
		if !dl[r.Off] {
			if first < 0 {
				first = r.Off
			}
			surv++
		}
	}
	kind := "same-base"
	switch {
	case surv == 0:
		kind = "emptied"
	case first != sg.Base:
		kind = "rebase"
	}
	role := "reader"
	if si == len(before)-1 {
		role = "head"
		if dl[sg.Recs[len(sg.Recs)-1].Off] {
			kind += "+tail"
		}
	}
	return role + "." + kind
}

func scanLog(l klevdb.Log) ([]klevdb.Message, error) {
	var got []klevdb.Message
	off := klevdb.OffsetOldest
	next, err := l.NextOffset()
	if err != nil {
		return nil, fmt.Errorf("NextOffset: %w", err)
	}
	for i := 0; i < 100000; i++ {
		no, msgs, err := l.Consume(off, 7)
		if err != nil {
			return nil, fmt.Errorf("Consume(%d): %w", off, err)
		}
		got = append(got, msgs...)
		if no == next && len(msgs) == 0 {
			return got, nil
		}
		if off >= 0 && no <= off {
			return nil, fmt.Errorf("no progress at %d (NextOffset %d)", off, next)
		}
		off = no
	}
	return nil, fmt.Errorf("scan does not terminate")
}

func listing(files map[string][]byte) string {
	var names []string
	for n, b := range files {
		short := strings.TrimLeft(n, "0")
		if strings.HasPrefix(short, ".") {
			short = "0" + short
		}
		// temp-file suffixes are random: normalise
		if i := strings.Index(short, ".rewrite."); i >= 0 {
			short = short[:i] + ".rewrite.X"
		}
		names = append(names, fmt.Sprintf("%s(%d)", short, len(b)))
	}
	sort.Strings(names)
	return strings.Join(names, " ")
}

func matchMsgs(want []Msg, got []klevdb.Message) bool {
	if len(want) != len(got) {
		return false
	}
	for i := range want {
		if !want[i].Eq(got[i]) {
			return false
		}
	}
	return true
}

// overlappingSegments is the image predicate of known finding K2: two log files A<B where A holds a
// record with an offset >= base(B).
func overlappingSegments(dir string) bool {
	segs, err := ReadSegs(dir)
	if err != nil {
		return false
	}
	for i := 0; i+1 < len(segs); i++ {
		for _, r := range segs[i].Recs {
			if r.Off >= segs[i+1].Base {
				return true
			}
		}
	}
	return false
}

// inRebaseWindow reports whether, among the events of operation opi up to snapshot index si, the
// rewritten segment has been renamed into place (Rename/log) and the old one not yet removed (Remove/log).
func (e *CrashEnv) inRebaseWindow(si int) bool {
	opi := e.Snaps[si].opi
	in := false
	for j := 0; j <= si; j++ {
		if e.Snaps[j].opi != opi {
			continue
		}
		switch e.Snaps[j].ev.site {
		case "Rename/log":
			in = true
		case "Remove/log":
			in = false
		}
	}
	return in
}

type imageCtx struct {
	si     int    // snapshot index
	kind   string // crash, torn, depth2, power
	detail string
	ack    int64
}

// violationSig computes the known-finding signature of a failing image.
func (e *CrashEnv) violationSig(ic imageCtx, dir string) string {
	op := e.Ops[e.Snaps[ic.si].opi]
	if op.op.Kind == "delete" && strings.HasSuffix(strings.TrimSuffix(op.outcome, "+tail"), ".rebase") && e.inRebaseWindow(ic.si) && overlappingSegments(dir) {
		return "crash|delete|rebase|Rename/log..Remove/log|overlapping-segments"
	}
	return ""
}

// CheckImage validates one crash image (already restored into e.Img) against operation rec.
// It returns nil, a known finding (counted), or panics with a Violation.
func (e *CrashEnv) CheckImage(ic imageCtx) {
	snap := e.Snaps[ic.si]
	op := e.Ops[snap.opi]
	imgFiles := snapshotDir(e.Img)
	sig := e.violationSig(ic, e.Img)
	fail := func(oracle, format string, args ...any) {
		msg := fmt.Sprintf(format, args...)
		if k := MatchKnown(e.Prop, sig); k != nil {
			e.St.KnownHit(k.ID, k.What)
			panic(knownSkip{})
		}
		var trail []string
		for j := ic.si - 4; j <= ic.si; j++ {
			if j >= 0 && e.Snaps[j].opi == snap.opi {
				trail = append(trail, e.Snaps[j].ev.String())
			}
		}
		panic(&Violation{Oracle: oracle, Sig: sig, Msg: fmt.Sprintf("%s image after workload op %d (%s, outcome %q) step %d [%v] %s: %s\n   image: %s\n   steps of this op so far: %v",
			ic.kind, snap.opi, op.op.Kind, op.outcome, snap.evInOp, snap.ev, ic.detail, msg, listing(imgFiles), trail)})
	}
	defer func() {
		if r := recover(); r != nil {
			if _, ok := r.(knownSkip); ok {
				return
			}
			panic(r)
		}
	}()
	opts := e.C.options(e.CurVAt(snap.opi))
	if ic.kind != "power" && ic.si%5 == 2 {
		// the recovering session need not use the options of the one that died: a copy of the image is opened with
		// Recover plus the other NewSegmentsVersion and EagerVersionMigrate (recovery must come before anything else
		// reads the head)
		alt := e.Img + ".alt"
		restoreDir(alt, imgFiles)
		ao := e.C.options(!e.CurVAt(snap.opi))
		ao.Recover = true
		ao.Version.EagerVersionMigrate = true
		la, err := klevdb.Open(alt, ao)
		if err != nil {
			_ = os.RemoveAll(alt)
			fail("open", "Open with Recover, the other NewSegmentsVersion and EagerVersionMigrate failed: %v", err)
		}
		gota, err := scanLog(la)
		_ = la.Close()
		_ = os.RemoveAll(alt)
		if err != nil {
			fail("scan", "reading the log recovered with the other NewSegmentsVersion and EagerVersionMigrate failed: %v", err)
		}
		ok := matchMsgs(op.after, gota)
		for p := 0; p <= len(op.inflight) && !ok; p++ {
			ok = matchMsgs(append(cloneMsgs(op.before), op.inflight[:p]...), gota)
		}
		if !ok {
			fail("content", "the log recovered with the other NewSegmentsVersion and EagerVersionMigrate holds offsets %v; admissible: %v (+ a prefix of the batch %v) or %v", msgOffsets(gota), offsOf(op.before), offsOf(op.inflight), offsOf(op.after))
		}
		e.St.Inc("images_recovered_with_other_version_and_eager_migrate")
	}
	o := opts
	o.Recover = true
	l, err := klevdb.Open(e.Img, o)
	if err != nil {
		fail("open", "Open with Recover failed: %v", err)
	}
	closed := false
	defer func() {
		if !closed {
			_ = l.Close()
		}
	}()
	got, err := scanLog(l)
	if err != nil {
		fail("scan", "reading the recovered log failed: %v", err)
	}
	next, _ := l.NextOffset()
	power := ic.kind == "power"
	if !power {
		ok := matchMsgs(op.after, got)
		for p := 0; p <= len(op.inflight) && !ok; p++ {
			ok = matchMsgs(append(cloneMsgs(op.before), op.inflight[:p]...), got)
		}
		if !ok {
			fail("content", "recovered log holds offsets %v; admissible: %v (+ a prefix of the batch %v) or %v", msgOffsets(got), offsOf(op.before), offsOf(op.inflight), offsOf(op.after))
		}
		if next < op.nextB {
			fail("next", "NextOffset moved backwards: %d < %d", next, op.nextB)
		}
	} else {
		prefixOf := func(a []Msg) bool {
			if len(got) > len(a) {
				return false
			}
			for i := range got {
				if !a[i].Eq(got[i]) {
					return false
				}
			}
			for _, x := range a[len(got):] {
				if x.Off < ic.ack {
					return false
				}
			}
			return true
		}
		full := append(cloneMsgs(op.before), op.inflight...)
		if !prefixOf(full) && !prefixOf(op.after) {
			fail("durability", "after power loss the log holds offsets %v; acknowledged offset %d; log at that point %v (in flight %v) or %v", msgOffsets(got), ic.ack, offsOf(op.before), offsOf(op.inflight), offsOf(op.after))
		}
		if next < ic.ack {
			fail("durability", "NextOffset %d is below the acknowledged offset %d", next, ic.ack)
		}
	}
	if len(got) > 0 && next < got[len(got)-1].Offset+1 {
		fail("next", "NextOffset %d not beyond the last message %d", next, got[len(got)-1].Offset)
	}
	// all views agree with the scan
	vm := NewModel()
	for _, g := range got {
		vm.Append(FromMessage(g))
	}
	vm.Next = next
	if e.C.AnyTimes {
		vm.Mono = false // the history was not monotone even if the survivors look it: carried index timestamps
	}
	ve := &Env{P: &Profile{Name: e.Prop, Own: own("views")}, Cfg: HConfig{KeyIndex: e.C.Keys, TimeIndex: e.C.Times}, Dir: e.Img, M: vm, St: e.St, flags: map[string]bool{}, Step: ic.si}
	if v := protect(func() {
		ve.observeWith(l, e.Img, obsTags{get: "views", key: "views", time: "views", stat: "views", consume: ""}, "recovered image")
	}); v != nil {
		fail("views", "views of the recovered log disagree: %s", v.Msg)
	}
	if err := l.Close(); err != nil {
		closed = true
		fail("close", "Close failed: %v", err)
	}
	closed = true
	// recovering again changes nothing
	s1 := snapshotDir(e.Img)
	if err := klevdb.Recover(e.Img, opts); err != nil {
		fail("idempotent", "a second Recover failed: %v", err)
	}
	if d := sameFiles(s1, snapshotDir(e.Img)); d != "" {
		fail("idempotent", "recovering again changed the directory: %s", d)
	}
	// appendable, and still passes Check
	l2, err := klevdb.Open(e.Img, opts)
	if err != nil {
		fail("append", "plain Open after recovery failed: %v", err)
	}
	post := klevdb.Message{Time: time.UnixMicro(1 << 40), Key: []byte("post"), Value: []byte("p")}
	pn, err := l2.Publish([]klevdb.Message{post})
	if err != nil || pn != next+1 {
		_ = l2.Close()
		fail("append", "Publish after recovery returned %d,%v (NextOffset was %d)", pn, err, next)
	}
	got2, err := scanLog(l2)
	if err != nil || len(got2) != len(got)+1 || got2[len(got2)-1].Offset != next {
		_ = l2.Close()
		fail("append", "after recovery and one Publish the log holds %v (%v), want %v + [%d]", msgOffsets(got2), err, msgOffsets(got), next)
	}
	if err := l2.Close(); err != nil {
		fail("append", "Close failed: %v", err)
	}
	if err := klevdb.Check(e.Img, opts); err != nil {
		fail("check", "Check after recovery and append failed: %v", err)
	}
	// life goes on: whatever the interrupted operation left behind (temporary files of a rewrite, of a recovery, of
	// a migration) must stay without effect when the recovered log is used. One Delete in every segment file, then
	// the files themselves are read with the reference parser: "a Delete in flight either fully applied or not at
	// all; nothing else" also holds later.
	if op.op.Kind != "delete" && ic.si%4 != 0 {
		return
	}
	e.St.Inc("images_continued_with_deletes")
	l3, err := klevdb.Open(e.Img, opts)
	if err != nil {
		fail("continue", "Open of the recovered log failed: %v", err)
	}
	segs, err := ReadSegs(e.Img)
	if err != nil {
		_ = l3.Close()
		fail("continue", "reading the segment files: %v", err)
	}
	exp := map[int64]klevdb.Message{}
	for _, g := range got2 {
		exp[g.Offset] = g
	}
	for _, sg := range segs {
		if len(sg.Recs) == 0 {
			continue
		}
		// the first message of the file (the segment is rebased or emptied) or a later one (the file keeps its name)
		victim := sg.Recs[0].Off
		if len(sg.Recs) > 1 && (ic.si+len(sg.Recs))%2 == 0 {
			victim = sg.Recs[1+(ic.si%(len(sg.Recs)-1))].Off
		}
		if _, ok := exp[victim]; !ok {
			continue
		}
		del, _, err := l3.Delete(map[int64]struct{}{victim: {}})
		if err != nil || len(del) != 1 || del[0].Offset != victim {
			_ = l3.Close()
			fail("continue", "Delete(%d) on the recovered log returned %v,%v", victim, msgOffsets(del), err)
		}
		delete(exp, victim)
	}
	got3, err := scanLog(l3)
	if err != nil {
		_ = l3.Close()
		fail("continue", "reading the recovered log after one Delete per segment failed: %v", err)
	}
	if len(got3) != len(exp) {
		_ = l3.Close()
		fail("continue", "after one Delete per segment the recovered log holds %v, want %d messages", msgOffsets(got3), len(exp))
	}
	for _, g := range got3 {
		if x, ok := exp[g.Offset]; !ok || !FromMessage(x).Eq(g) {
			_ = l3.Close()
			fail("continue", "after one Delete per segment the recovered log returns %+v", FromMessage(g))
		}
	}
	if err := l3.Close(); err != nil {
		fail("continue", "Close failed: %v", err)
	}
	if err := klevdb.Check(e.Img, opts); err != nil {
		fail("continue", "Check after one Delete per segment of the recovered log failed: %v", err)
	}
	segs, err = ReadSegs(e.Img)
	if err != nil {
		fail("continue", "reading the segment files: %v", err)
	}
	var prev int64 = -1
	n := 0
	for _, sg := range segs {
		if !sg.Clean && !sg.Empty {
			fail("continue", "segment file %s does not parse after one Delete per segment", sg.Name)
		}
		for _, r := range sg.Recs {
			if r.Off <= prev {
				fail("continue", "segment files hold offset %d after offset %d (file %s) after one Delete per segment of the recovered log", r.Off, prev, sg.Name)
			}
			prev = r.Off
			if x, ok := exp[r.Off]; !ok || !FromMessage(x).Eq(klevdb.Message{Offset: r.Off, Time: time.UnixMicro(r.TS), Key: r.Key, Value: r.Val}) {
				fail("continue", "segment file %s holds a record at offset %d that the log does not (or with other content)", sg.Name, r.Off)
			}
			n++
		}
	}
	if n != len(exp) {
		fail("continue", "segment files hold %d records, the log %d messages", n, len(exp))
	}
	// ... and a later migration (to the version in force: nothing to do; then to the other one) must not bring anything
	// back that an interrupted migration left lying around
	for round, v1 := range []bool{e.CurVAt(snap.opi), !e.CurVAt(snap.opi)} {
		ver := klevdb.V2
		if v1 {
			ver = klevdb.V1
		}
		if err := klevdb.Migrate(e.Img, opts, ver); err != nil {
			fail("continue", "Migrate (round %d, to V1=%v) of the recovered and further used log failed: %v", round, v1, err)
		}
		mo := e.C.options(v1)
		l4, err := klevdb.Open(e.Img, mo)
		if err != nil {
			fail("continue", "Open after Migrate (round %d) failed: %v", round, err)
		}
		got4, err := scanLog(l4)
		var bad string
		if err != nil || len(got4) != len(exp) {
			bad = fmt.Sprintf("reads %v (%v), want %d messages", msgOffsets(got4), err, len(exp))
		}
		for _, g := range got4 {
			if x, ok := exp[g.Offset]; bad == "" && (!ok || !FromMessage(x).Eq(g)) {
				bad = fmt.Sprintf("returns %+v", FromMessage(g))
			}
			if _, gerr := l4.Get(g.Offset); bad == "" && gerr != nil {
				bad = fmt.Sprintf("Get(%d) fails: %v", g.Offset, gerr)
			}
		}
		for o := int64(0); o < next+1 && bad == ""; o++ {
			if _, ok := exp[o]; !ok {
				if g, gerr := l4.Get(o); gerr == nil {
					bad = fmt.Sprintf("Get(%d) of a deleted offset returns %+v", o, FromMessage(g))
				}
			}
		}
		_ = l4.Close()
		if bad != "" {
			fail("continue", "after recovery, one Delete per segment and Migrate (round %d, to V1=%v) the log %s", round, v1, bad)
		}
	}
	e.St.Inc("images_continued_with_migrations")
}

type knownSkip struct{}

// CurVAt returns the NewSegmentsVersion in force during operation opi.
func (e *CrashEnv) CurVAt(opi int) bool {
	v1 := e.C.V1
	for i := 1; i <= opi && i < len(e.Ops); i++ {
		if e.Ops[i].op.Kind == "reopen-migrate" || e.Ops[i].op.Kind == "reopen-switch" {
			v1 = e.Ops[i].op.ToV1
		}
	}
	return v1
}

func hasShortFile(files map[string][]byte) bool {
	for _, b := range files {
		if len(b) > 0 && len(b) < 8 {
			return true
		}
	}
	return false
}

type crashBudget struct {
	tornAll     bool
	depth2Every int // depth-2 on every n-th image (0 = never)
	depth2Torn  int // depth-2 on every n-th torn cut
}

func (e *CrashEnv) ntImage(si int, kind string, files map[string][]byte, extra string) {
	snap := e.Snaps[si]
	op := e.Ops[snap.opi]
	if sameFiles(files, op.preDir) != "" && sameFiles(files, op.postDir) != "" {
		e.St.NonTrivialStr(fmt.Sprintf("%s|%s|%s|%s|%s|%s", kind, op.op.Kind, op.outcome, snap.ev.site, extra, listing(files)))
		e.St.Inc("intermediate_images." + kind)
	}
}

// CheckAllImages is the C05 pass over every snapshot of the finished workload.
func (e *CrashEnv) CheckAllImages(b crashBudget) {
	verifhook.SetFS(e.tap) // depth-2 recoveries run under the tap (subDir mode)
	defer verifhook.SetFS(nil)
	tornCount := 0
	for si, s := range e.Snaps {
		if s.opi == 0 {
			continue
		}
		// torn variants of an append
		if s.ev.op == "write" && !strings.HasSuffix(s.ev.site, "/header") && si > 0 {
			name := s.ev.p1
			prev := 0
			if pb, ok := e.Snaps[si-1].files[name]; ok {
				prev = len(pb)
			}
			cur := len(s.files[name])
			var cuts []int
			if b.tornAll || cur-prev <= 8 {
				for c := prev + 1; c < cur; c++ {
					cuts = append(cuts, c)
				}
			} else {
				set := map[int]bool{prev + 1: true, prev + 27: true, prev + 28: true, prev + 29: true, cur - 1: true, prev + 8: true, prev + 16: true}
				x := uint64(si)*0x9E3779B97F4A7C15 + uint64(cur)
				for k := 0; k < 3; k++ {
					set[prev+1+int(xorshift(&x)%uint64(cur-prev-1))] = true
				}
				for c := range set {
					if c > prev && c < cur {
						cuts = append(cuts, c)
					}
				}
				sort.Ints(cuts)
			}
			for _, cut := range cuts {
				tf := map[string][]byte{}
				for k, v := range s.files {
					tf[k] = v
				}
				tf[name] = s.files[name][:cut]
				if hasShortFile(tf) {
					e.St.Inc("torn_excluded_short_header")
					continue
				}
				tornCount++
				detail := fmt.Sprintf("(append to %s torn at %d of %d..%d)", name, cut, prev, cur)
				if b.depth2Torn > 0 && tornCount%b.depth2Torn == 0 {
					e.depth2(si, tf, detail)
				}
				restoreDir(e.Img, tf)
				e.St.Eval(1)
				e.St.Inc("images.torn")
				e.ntImage(si, "torn", tf, name[strings.LastIndex(name, ".")+1:])
				e.CheckImage(imageCtx{si: si, kind: "torn", detail: detail})
			}
		}
		if b.depth2Every > 0 && si%b.depth2Every == 0 {
			e.depth2(si, s.files, "")
		}
		if hasShortFile(s.files) {
			continue
		}
		restoreDir(e.Img, s.files)
		e.St.Eval(1)
		e.St.Inc("images.crash")
		e.ntImage(si, "crash", s.files, "")
		e.CheckImage(imageCtx{si: si, kind: "crash"})
	}
}

// depth2 runs the recovery of an image under the tap and checks every intermediate state of it.
func (e *CrashEnv) depth2(si int, files map[string][]byte, detail string) {
	restoreDir(e.Img, files)
	e.subSnaps = nil
	e.subDir = e.Img
	o := e.C.options(e.CurVAt(e.Snaps[si].opi))
	o.Recover = true
	if l, err := klevdb.Open(e.Img, o); err == nil {
		_ = l.Close()
	}
	e.subDir = ""
	subs := e.subSnaps
	e.subSnaps = nil
	for _, s2 := range subs {
		if hasShortFile(s2.files) {
			continue
		}
		restoreDir(e.Img, s2.files)
		e.St.Eval(1)
		e.St.Inc("images.depth2")
		if sameFiles(s2.files, files) != "" {
			e.St.NonTrivialStr(fmt.Sprintf("depth2|%s|%s|%s", e.Ops[e.Snaps[si].opi].op.Kind, s2.ev.site, listing(s2.files)))
			e.St.Inc("intermediate_images.depth2")
		}
		e.CheckImage(imageCtx{si: si, kind: "depth2", detail: fmt.Sprintf("%s then the recovery died after [%v]", detail, s2.ev)})
	}
}

// CheckPowerImages is the C06 pass: per-file tail loss down to the last fsynced length.
func (e *CrashEnv) CheckPowerImages(every int, randomVectors int) {
	for si, s := range e.Snaps {
		if s.opi == 0 {
			continue
		}
		afterAck := si > 0 && e.Snaps[si-1].ack != s.ack
		if every > 1 && si%every != 0 && !afterAck && s.ev.op != "fsync" {
			continue
		}
		names := make([]string, 0, len(s.files))
		for n := range s.files {
			names = append(names, n)
		}
		sort.Strings(names)
		lo := func(n string) int {
			v := s.synced[n]
			if v > len(s.files[n]) {
				v = len(s.files[n])
			}
			return v
		}
		fix := func(n string, ln int) int {
			// 8-byte headers are atomic: lengths 1..7 do not exist
			if ln > 0 && ln < 8 {
				if lo(n) >= 8 {
					return 8
				}
				if len(s.files[n]) >= 8 && lo(n) > 0 {
					return 8
				}
				return 0
			}
			if ln < lo(n) {
				return lo(n)
			}
			return ln
		}
		var vectors []map[string]int
		all := func(f func(n string) int) map[string]int {
			v := map[string]int{}
			for _, n := range names {
				v[n] = fix(n, f(n))
			}
			return v
		}
		vectors = append(vectors, all(lo))
		for _, pick := range names {
			if lo(pick) == len(s.files[pick]) {
				continue
			}
			p := pick
			vectors = append(vectors, all(func(n string) int {
				if n == p {
					return lo(n)
				}
				return len(s.files[n])
			}))
			vectors = append(vectors, all(func(n string) int {
				if n == p {
					return len(s.files[n])
				}
				return lo(n)
			}))
		}
		x := uint64(si+1) * 0x9E3779B97F4A7C15
		for k := 0; k < randomVectors; k++ {
			vectors = append(vectors, all(func(n string) int {
				l0, l1 := lo(n), len(s.files[n])
				if l1 <= l0 {
					return l1
				}
				r := xorshift(&x)
				switch r % 4 {
				case 0:
					return l0
				case 1:
					return l1
				case 2:
					// a record boundary +-1 when the file parses
					if strings.HasSuffix(n, ".log") {
						recs, _, _, _ := RefParseLog(s.files[n])
						var cands []int
						for _, rr := range recs {
							for _, d := range []int{-1, 0, 1} {
								if c := int(rr.End) + d; c >= l0 && c <= l1 {
									cands = append(cands, c)
								}
							}
						}
						if len(cands) > 0 {
							return cands[int((r>>8)%uint64(len(cands)))]
						}
					}
				}
				return l0 + int((r>>8)%uint64(l1-l0+1))
			}))
		}
		seen := map[string]bool{}
		for _, v := range vectors {
			tf := map[string][]byte{}
			shorter := false
			key := ""
			for _, n := range names {
				tf[n] = s.files[n][:v[n]]
				if v[n] < len(s.files[n]) {
					shorter = true
				}
				key += fmt.Sprintf("%d,", v[n])
			}
			if seen[key] {
				continue
			}
			seen[key] = true
			restoreDir(e.Img, tf)
			e.St.Eval(1)
			e.St.Inc("images.power")
			if shorter && s.ack > 0 {
				e.St.NonTrivialStr(fmt.Sprintf("power|%s|%s|%d|%s", e.Ops[s.opi].op.Kind, s.ev.site, s.ack, listing(tf)))
				e.St.Inc("images.power.shorter_with_ack")
			}
			var lens []string
			for _, n := range names {
				lens = append(lens, fmt.Sprintf("%s:%d/%d(fsynced %d)", strings.TrimLeft(n, "0"), v[n], len(s.files[n]), s.synced[n]))
			}
			e.CheckImage(imageCtx{si: si, kind: "power", ack: s.ack, detail: fmt.Sprintf("acknowledged offset %d, file lengths kept %v", s.ack, lens)})
		}
	}
}
