package vf

// C07: Recover keeps exactly the valid prefix; Check accepts exactly the clean segments.
// A head segment is built with the repository's own writers, then damaged in every enumerated way;
// the oracle is the independent reference parser.

import (
	"bytes"
	"encoding/binary"
	"fmt"
	"hash/crc32"
	"os"
	"path/filepath"
	"sort"
	"testing"
	"time"

	"github.com/klev-dev/klevdb"
	"pgregory.net/rapid"
)

type SegCase struct {
	Keys  bool       `json:"keys"`
	Times bool       `json:"times"`
	V1    bool       `json:"v1"`
	Msgs  []CodecMsg `json:"msgs"`
	// IdxOther: the (valid) index of the undamaged segment is in the other container version than the log,
	// as it is after a lazy rebuild under another NewSegmentsVersion
	IdxOther bool   `json:"idx_other_container,omitempty"`
	Only     string `json:"only,omitempty"` // replay: restrict to the damage with this description
}

func genSegCase(t *rapid.T) *SegCase {
	c := &SegCase{Keys: rapid.Bool().Draw(t, "keys"), Times: rapid.Bool().Draw(t, "times"), V1: uni(t, 4, "v1") == 3}
	c.IdxOther = uni(t, 3, "idx_other") == 2
	n := 1 + uni(t, 6, "n")
	ts := int64(10)
	// a single segment at base 0 carries no timestamp in from an older segment, so Check/Recover must
	// handle any times, decreasing ones included (index timestamp = running maximum)
	anyTimes := rapid.Bool().Draw(t, "any_times")
	for i := 0; i < n; i++ {
		if anyTimes {
			ts = 1 + int64(uni(t, 30, "ts"))
		} else {
			ts += int64(pick(t, []int{0, 0, 1, 2}, "dt"))
		}
		kl := pick(t, []int{0, 0, 1, 3, 8, 20, 60}, "klen")
		vl := pick(t, []int{0, 0, 1, 5, 17, 40, 60}, "vlen")
		m := CodecMsg{Off: int64(i), TS: ts}
		if kl > 0 {
			m.K = rapid.SliceOfN(rapid.Byte(), kl, kl).Draw(t, "k")
		}
		if vl > 0 {
			m.V = rapid.SliceOfN(rapid.Byte(), vl, vl).Draw(t, "v")
		}
		c.Msgs = append(c.Msgs, m)
	}
	return c
}

type segDamage struct {
	desc       string
	log        []byte
	idx        []byte
	idxPresent bool
	idxOnly    bool
}

func (c *SegCase) opts() klevdb.Options {
	o := klevdb.Options{KeyIndex: c.Keys, TimeIndex: c.Times}
	if c.V1 {
		o.Version.NewSegmentsVersion = klevdb.V1
	}
	return o
}

func runSegCase(c *SegCase, st *Stats) {
	root := MkScratch("vf-c07-")
	defer os.RemoveAll(root)
	dir := filepath.Join(root, "log")
	_ = os.MkdirAll(dir, 0700)
	opts := c.opts()
	l, err := klevdb.Open(dir, opts)
	if err != nil {
		cfail("err", "open: %v", err)
	}
	var lastTS int64
	for _, m := range c.Msgs {
		if _, err := l.Publish([]klevdb.Message{{Time: time.UnixMicro(m.TS), Key: m.K, Value: m.V}}); err != nil {
			cfail("err", "publish: %v", err)
		}
		if m.TS > lastTS {
			lastTS = m.TS
		}
	}
	if err := l.Close(); err != nil {
		cfail("err", "close: %v", err)
	}
	lp := filepath.Join(dir, "00000000000000000000.log")
	ip := filepath.Join(dir, "00000000000000000000.index")
	logB, _ := os.ReadFile(lp)
	idxB, _ := os.ReadFile(ip)
	recs, end, clean, v2 := RefParseLog(logB)
	if !clean || len(recs) != len(c.Msgs) || int(end) != len(logB) || v2 == c.V1 {
		cfail("recover", "the reference parser does not accept a freshly written segment: %d of %d records, clean=%v, v2=%v", len(recs), len(c.Msgs), clean, v2)
	}
	items, idxV2, ierr := RefParseIndex(idxB, c.Keys, c.Times)
	if ierr != nil || !itemsEq(items, RefDerive(recs, c.Keys, c.Times)) {
		cfail("recover", "index of a freshly written segment differs from the derived index: %v", ierr)
	}
	if c.IdxOther {
		idxB = RefEncodeIndex(!idxV2, items, c.Keys, c.Times)
	}
	segID := fmt.Sprintf("%x", sha8(append(append([]byte{}, logB...), idxB...)))

	var dmg []segDamage
	add := func(desc string, nlog, nidx []byte, present, idxOnly bool) {
		if c.Only != "" && c.Only != desc {
			return
		}
		dmg = append(dmg, segDamage{desc, nlog, nidx, present, idxOnly})
	}
	thorough := thoroughTier()
	// both files at once: a sample of the log damages is also tried with the index file missing and with an index
	// file without items (what a crash before the first item write, or an operator removing index files, leaves)
	add1 := add
	hdrOnly := []byte{}
	if IsV2Index(idxB) {
		hdrOnly = append([]byte{}, idxB[:8]...)
	}
	combo := 0
	add = func(desc string, nlog, nidx []byte, present, idxOnly bool) {
		add1(desc, nlog, nidx, present, idxOnly)
		if idxOnly || desc == "none" {
			return
		}
		combo++
		every := 6
		if thorough {
			every = 2
		}
		if combo%every != 0 {
			return
		}
		add1(desc+" + index missing", nlog, nil, false, false)
		add1(desc+" + index without items", nlog, hdrOnly, true, false)
	}
	// undamaged control
	add("none", logB, idxB, true, false)
	// truncations: 0, and every length at/after the 8-byte header
	add("trunc 0", nil, idxB, true, false)
	for cut := 8; cut < len(logB); cut++ {
		add(fmt.Sprintf("trunc %d/%d", cut, len(logB)), logB[:cut], idxB, true, false)
	}
	if !c.V1 {
		// single-byte corruption at every position after the file header
		for pos := 8; pos < len(logB); pos++ {
			var vals []byte
			if thorough {
				for b := 0; b < 8; b++ {
					vals = append(vals, logB[pos]^(1<<uint(b)))
				}
			} else {
				vals = append(vals, logB[pos]^(1<<uint((pos*5+len(logB))%8)))
			}
			for _, v := range []byte{0x00, 0xFF} {
				if v != logB[pos] {
					vals = append(vals, v)
				}
			}
			for _, v := range vals {
				nb := append([]byte{}, logB...)
				nb[pos] = v
				add(fmt.Sprintf("byte@%d=%02x", pos, v), nb, idxB, true, false)
			}
		}
		// tails of every length up to two records
		maxTail := 2 * (36 + 60 + 60)
		for tl := 1; tl <= maxTail; tl++ {
			if !thorough && tl > 48 && tl%7 != 0 {
				continue
			}
			for fi, fill := range [][]byte{bytes.Repeat([]byte{0}, tl), bytes.Repeat([]byte{0xFF}, tl), pattern(tl, byte(tl*31+len(logB)))} {
				add(fmt.Sprintf("tail%d len %d", fi, tl), append(append([]byte{}, logB...), fill...), idxB, true, false)
				if fi == 0 && tl <= len(logB)-8 {
					// overwritten (not appended) tail
					nb := append([]byte{}, logB...)
					copy(nb[len(nb)-tl:], fill)
					add(fmt.Sprintf("overwrite-tail%d len %d", fi, tl), nb, idxB, true, false)
				}
			}
		}
		// damage that repairs its own checksum: the record's CRC32C is recomputed after the change, so only the other
		// validity conditions of the format can tell. A changed trailer is not a valid record; a changed value byte is
		// a valid record with other content (the log parses, the index must follow it)
		for ri, r := range recs {
			for tb := 0; tb < 8; tb++ {
				if !thorough && tb != (ri*3+len(logB))%8 {
					continue
				}
				nb := append([]byte{}, logB...)
				nb[r.End-8+int64(tb)] ^= 1 << uint((ri+tb)%8)
				binary.BigEndian.PutUint32(nb[r.Pos:], crc32.Checksum(nb[r.Pos+4:r.End], crc32.MakeTable(crc32.Castagnoli)))
				add(fmt.Sprintf("forged-trailer rec %d byte %d (crc recomputed)", ri, tb), nb, idxB, true, false)
			}
			if len(r.Val) > 0 {
				nb := append([]byte{}, logB...)
				nb[r.End-8-1] ^= 0x20
				binary.BigEndian.PutUint32(nb[r.Pos:], crc32.Checksum(nb[r.Pos+4:r.End], crc32.MakeTable(crc32.Castagnoli)))
				add(fmt.Sprintf("forged-value rec %d (crc recomputed)", ri), nb, idxB, true, false)
			}
		}
		// a valid-looking record of another offset appended (parses: must be kept, index must follow)
		extra := RefEncodeV2(int64(len(c.Msgs)), lastTS+1, []byte("x"), []byte("y"))
		add("extra-valid-record", append(append([]byte{}, logB...), extra...), idxB, true, false)
	}
	// index damage
	add("index missing", logB, nil, false, true)
	for cut := 0; cut < len(idxB); cut++ {
		add(fmt.Sprintf("index trunc %d", cut), logB, idxB[:cut], true, true)
	}
	for pos := 0; pos < len(idxB); pos++ {
		xs := []byte{0x10}
		if thorough {
			xs = []byte{0x01, 0x10, 0x80}
		}
		for _, x := range xs {
			nb := append([]byte{}, idxB...)
			nb[pos] ^= x
			add(fmt.Sprintf("index byte@%d^%02x", pos, x), logB, nb, true, true)
		}
	}
	hdr := 0
	if IsV2Index(idxB) {
		hdr = 8
	}
	add("index extra items", logB, append(append([]byte{}, idxB...), idxB[hdr:]...), true, true)
	add("index extra zero item", logB, append(append([]byte{}, idxB...), make([]byte, RefItemSize(c.Keys, c.Times))...), true, true)
	add("index other layout", logB, RefEncodeIndex(hdr == 8, RefDerive(recs, !c.Keys, c.Times), !c.Keys, c.Times), true, true)
	add("index other container", logB, RefEncodeIndex(hdr != 8, RefDerive(recs, c.Keys, c.Times), c.Keys, c.Times), true, true)

	for di, d := range dmg {
		st.Eval(1)
		if v := protect(func() { trySegDamage(c, st, dir, lp, ip, d, di, lastTS, segID) }); v != nil {
			v.Msg = fmt.Sprintf("damage %q: %s", d.desc, v.Msg)
			c.Only = d.desc
			panic(v)
		}
	}
}

func itemsEq(a, b []RItem) bool {
	if len(a) != len(b) {
		return false
	}
	for i := range a {
		if a[i] != b[i] {
			return false
		}
	}
	return true
}

func dirNames(dir string) []string {
	es, _ := os.ReadDir(dir)
	var out []string
	for _, e := range es {
		if e.Name() != ".lock" {
			out = append(out, e.Name())
		}
	}
	sort.Strings(out)
	return out
}

func trySegDamage(c *SegCase, st *Stats, dir, lp, ip string, d segDamage, di int, lastTS int64, segID string) {
	opts := c.opts()
	for _, n := range dirNames(dir) {
		_ = os.Remove(filepath.Join(dir, n))
	}
	_ = os.WriteFile(lp, d.log, 0600)
	if d.idxPresent {
		_ = os.WriteFile(ip, d.idx, 0600)
	}
	precs, pend, pclean, _ := RefParseLog(d.log)
	derived := RefDerive(precs, c.Keys, c.Times)
	idxOK := true
	if d.idxPresent {
		it, _, err := RefParseIndex(d.idx, c.Keys, c.Times)
		idxOK = err == nil && itemsEq(it, derived)
		if len(d.idx) > 0 && len(d.idx) < 8 {
			idxOK = false
		}
	}
	wantCheckOK := pclean && idxOK
	cerr := klevdb.Check(dir, opts)
	if (cerr == nil) != wantCheckOK {
		cfail("check", "Check returned %v; the log parses completely=%v (valid prefix %d records, %d of %d bytes), index present=%v equal to derived=%v", cerr, pclean, len(precs), pend, len(d.log), d.idxPresent, idxOK)
	}
	// Recover: package-level or through Open, alternating
	viaOpen := di%2 == 1
	if viaOpen {
		o := opts
		o.Recover = true
		l, err := klevdb.Open(dir, o)
		if err != nil {
			cfail("recover", "Open(Recover) failed: %v", err)
		}
		if err := l.Close(); err != nil {
			cfail("recover", "Close after Open(Recover) failed: %v", err)
		}
	} else if err := klevdb.Recover(dir, opts); err != nil {
		cfail("recover", "Recover failed: %v", err)
	}
	got, _ := os.ReadFile(lp)
	want := d.log[:pend]
	if viaOpen && len(want) == 0 && !c.V1 {
		// opening an empty head file for writing stamps it with the file header of NewSegmentsVersion
		want = RefLogHeaderV2
	}
	if !bytes.Equal(got, want) {
		grecs, _, _, _ := RefParseLog(got)
		cfail("recover", "after Recover the log file has %d bytes (%d records); the longest valid prefix is %d bytes (%d records)", len(got), len(grecs), len(want), len(precs))
	}
	gi, ierr := os.ReadFile(ip)
	if ierr == nil {
		it, _, err := RefParseIndex(gi, c.Keys, c.Times)
		if err != nil || !itemsEq(it, derived) {
			// opening the log (viaOpen) creates / extends the index as part of becoming the writer; it must still match
			cfail("recover", "after Recover the index file (len %d) does not equal the index derived from the recovered log (%d records): %v", len(gi), len(precs), err)
		}
	}
	if wantCheckOK && !viaOpen {
		if !bytes.Equal(got, d.log) || (d.idxPresent && !bytes.Equal(gi, d.idx)) || (!d.idxPresent && ierr == nil) {
			cfail("recover", "Recover is not a byte-for-byte no-op on an undamaged segment")
		}
	}
	if wantCheckOK && !viaOpen {
		// the no-op clause: nothing may appear next to an undamaged segment either
		for _, n := range dirNames(dir) {
			if n != filepath.Base(lp) && n != filepath.Base(ip) {
				cfail("recover", "Recover on an undamaged segment left file %s behind", n)
			}
		}
	}
	if err := klevdb.Check(dir, opts); err != nil {
		cfail("check", "Check after Recover failed: %v", err)
	}
	// append and check again
	l, err := klevdb.Open(dir, opts)
	if err != nil {
		cfail("recover", "Open after Recover failed: %v", err)
	}
	next, _ := l.NextOffset()
	wantNext := int64(0)
	if len(precs) > 0 {
		wantNext = precs[len(precs)-1].Off + 1
	}
	if next != wantNext {
		_ = l.Close()
		cfail("recover", "NextOffset after Recover is %d, want %d", next, wantNext)
	}
	if _, err := l.Publish([]klevdb.Message{{Time: time.UnixMicro(lastTS + 5), Key: []byte("post"), Value: []byte("p")}}); err != nil {
		_ = l.Close()
		cfail("recover", "Publish after Recover failed: %v", err)
	}
	_, msgs, err := l.Consume(klevdb.OffsetOldest, 100)
	if err != nil || len(msgs) != len(precs)+1 {
		_ = l.Close()
		cfail("recover", "after Recover + Publish the log holds %d messages (%v), want %d", len(msgs), err, len(precs)+1)
	}
	for i, r := range precs {
		if !r.Msg().Eq(msgs[i]) {
			_ = l.Close()
			cfail("recover", "after Recover message %d differs from the valid prefix", i)
		}
	}
	if err := l.Close(); err != nil {
		cfail("recover", "Close failed: %v", err)
	}
	if err := klevdb.Check(dir, opts); err != nil {
		cfail("check", "Check after Recover and a further append failed: %v", err)
	}
	if (len(precs) > 0 && len(precs) < len(c.Msgs) && !pclean) || d.idxOnly {
		st.NonTrivialStr(segID + "|" + d.desc)
		if st.WantSample() {
			st.Sample(map[string]any{"segment": c, "damage": d.desc, "valid_prefix_records": len(precs), "log_len": len(d.log)})
		}
	}
	if !pclean {
		st.Inc("log_damaged")
	}
	if d.idxOnly {
		st.Inc("index_only_damaged")
	}
	if wantCheckOK {
		st.Inc("check_accepts")
	} else {
		st.Inc("check_rejects")
	}
}

func TestC07(t *testing.T) {
	st := NewStats("C07")
	defer st.Write()
	var lastCase *SegCase
	var lastViol *Violation
	defer func() {
		if t.Failed() && lastCase != nil {
			path := WriteReplay("C07", "segdamage", lastViol, lastCase)
			fmt.Printf("%v\nVIOLATION property=C07 replay=%s\n", lastViol, path)
		}
	}()
	rapid.Check(t, func(rt *rapid.T) {
		c := genSegCase(rt)
		if v := protect(func() { runSegCase(c, st) }); v != nil {
			lastCase, lastViol = c, v
			rt.Fatalf("%s", v.Error())
		}
		st.Inc("segments")
	})
}

// FuzzRecoverBytes: arbitrary bytes after a valid V2 header as the head log (no index file).
func FuzzRecoverBytes(f *testing.F) {
	two := append(append([]byte{}, RefEncodeV2(0, 5, []byte("k"), []byte("v"))...), RefEncodeV2(1, 6, nil, nil)...)
	f.Add(two)
	f.Add(append(append([]byte{}, two...), 0, 0, 0))
	f.Add(make([]byte, 36))
	root := MkScratch("vf-fuzzrec-")
	f.Cleanup(func() { os.RemoveAll(root) })
	f.Fuzz(func(t *testing.T, body []byte) {
		dir := filepath.Join(root, fmt.Sprintf("d%d", os.Getpid()))
		_ = os.RemoveAll(dir)
		_ = os.MkdirAll(dir, 0700)
		file := append(append([]byte{}, RefLogHeaderV2...), body...)
		lp := filepath.Join(dir, "00000000000000000000.log")
		_ = os.WriteFile(lp, file, 0600)
		precs, pend, pclean := RefParseV2(file)
		opts := klevdb.Options{KeyIndex: true, TimeIndex: false}
		if (klevdb.Check(dir, opts) == nil) != pclean {
			t.Fatalf("Check disagrees with the reference parser (clean=%v, %d records)", pclean, len(precs))
		}
		if err := klevdb.Recover(dir, opts); err != nil {
			t.Fatalf("Recover: %v", err)
		}
		got, _ := os.ReadFile(lp)
		if !bytes.Equal(got, file[:pend]) {
			t.Fatalf("Recover left %d bytes, valid prefix is %d bytes", len(got), pend)
		}
		if err := klevdb.Check(dir, opts); err != nil {
			t.Fatalf("Check after Recover: %v", err)
		}
	})
}
