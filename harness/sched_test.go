package vf

// C08 (a): owned windows. A sequential prefix builds a state; call A is started with one pause point
// armed (k-th occurrence, only for A's goroutine) and held there; up to two further complete calls are
// issued; A is released. Oracle: brute-force linearization of the <=3 calls against the reference model.

import (
	"bytes"
	"errors"
	"fmt"
	"os"
	"path/filepath"
	"runtime"
	"strings"
	"sync"
	"sync/atomic"
	"testing"
	"time"

	"github.com/klev-dev/klevdb"
	"github.com/klev-dev/klevdb/pkg/verifhook"
	"pgregory.net/rapid"
)

type SCall struct {
	Kind string   `json:"call"` // publish consume consumebykey get getbykey getbytime delete next sync gc stat
	Msgs []MsgIn  `json:"msgs,omitempty"`
	Off  int64    `json:"off,omitempty"`
	Max  int64    `json:"max,omitempty"`
	Key  HexBytes `json:"key,omitempty"`
	TS   int64    `json:"ts,omitempty"`
	Set  []int64  `json:"set,omitempty"`

	// results
	rnext int64
	rmsgs []klevdb.Message
	rmsg  klevdb.Message
	rerr  error
	inv   int64
	ret   int64
	pub   []klevdb.Message

	panicked bool
	gid      atomic.Int64 // goroutine running the call (windows: deadlock inspection)
}

// awaitCalls waits for done. It never gives a verdict on elapsed time: while waiting it looks at the goroutines of the
// calls that have not returned, and only when ALL of them are parked in a mutex wait in one consistent snapshot (the
// stack dump stops the world) - nobody left who could unlock anything - it reports a deadlock. A merely slow call is
// runnable, running or in a system call and keeps the wait going.
func awaitCalls(done <-chan struct{}, pending func() []*SCall, what func() string) {
	for round := 0; ; round++ {
		select {
		case <-done:
			return
		case <-time.After(1500 * time.Millisecond):
		}
		ps := pending()
		if len(ps) == 0 {
			continue
		}
		states := goroutineStates()
		all := true
		desc := ""
		for _, c := range ps {
			st, ok := states[c.gid.Load()]
			desc += fmt.Sprintf("\n    %s: goroutine %d [%s]", c.Kind, c.gid.Load(), st)
			if !ok || !(strings.HasPrefix(st, "sync.Mutex.Lock") || strings.HasPrefix(st, "sync.RWMutex.RLock") || strings.HasPrefix(st, "sync.RWMutex.Lock") || strings.HasPrefix(st, "semacquire")) {
				all = false
			}
		}
		if all && round >= 1 {
			deadlockSeen.Store(true)
			panic(&Violation{Oracle: "deadlock", Msg: "every call that has not returned is waiting for a lock, nobody is left to release one:" + desc + "\n  " + what()})
		}
	}
}

// deadlockSeen: the log handle of the current case is wedged; cleanup must not call into it again.
var deadlockSeen atomic.Bool

// goroutineStates maps goroutine id to its wait state as printed in a full stack dump.
func goroutineStates() map[int64]string {
	buf := make([]byte, 1<<20)
	for {
		n := runtime.Stack(buf, true)
		if n < len(buf) {
			buf = buf[:n]
			break
		}
		buf = make([]byte, 2*len(buf))
	}
	out := map[int64]string{}
	for _, line := range strings.Split(string(buf), "\n") {
		if !strings.HasPrefix(line, "goroutine ") {
			continue
		}
		var id int64
		rest := line[len("goroutine "):]
		i := 0
		for i < len(rest) && rest[i] >= '0' && rest[i] <= '9' {
			id = id*10 + int64(rest[i]-'0')
			i++
		}
		if a, b := strings.Index(rest, "["), strings.LastIndex(rest, "]"); a >= 0 && b > a {
			out[id] = rest[a+1 : b]
		}
	}
	return out
}

func (c *SCall) String() string {
	switch c.Kind {
	case "publish":
		return fmt.Sprintf("Publish(%d msgs)->%d,%v", len(c.Msgs), c.rnext, c.rerr)
	case "consume":
		return fmt.Sprintf("Consume(%d,%d)->%d,%v,%v", c.Off, c.Max, c.rnext, msgOffsets(c.rmsgs), c.rerr)
	case "consumebykey":
		return fmt.Sprintf("ConsumeByKey(%s,%d,%d)->%d,%v,%v", hexs(c.Key), c.Off, c.Max, c.rnext, msgOffsets(c.rmsgs), c.rerr)
	case "get":
		return fmt.Sprintf("Get(%d)->%d,%v", c.Off, c.rmsg.Offset, c.rerr)
	case "getbykey":
		return fmt.Sprintf("GetByKey(%s)->%d,%v", hexs(c.Key), c.rmsg.Offset, c.rerr)
	case "getbytime":
		return fmt.Sprintf("GetByTime(%d)->%d,%v", c.TS, c.rmsg.Offset, c.rerr)
	case "delete":
		return fmt.Sprintf("Delete(%v)->%v,%v", c.Set, msgOffsets(c.rmsgs), c.rerr)
	case "next":
		return fmt.Sprintf("NextOffset->%d,%v", c.rnext, c.rerr)
	case "sync":
		return fmt.Sprintf("Sync->%d,%v", c.rnext, c.rerr)
	}
	return fmt.Sprintf("%s->%v", c.Kind, c.rerr)
}

// run executes the call; a panic inside it is recorded as its (inadmissible) result instead of killing the
// test process from a goroutine that cannot report it.
func (c *SCall) run(l klevdb.Log) {
	defer func() {
		if r := recover(); r != nil {
			c.rerr = fmt.Errorf("PANIC: %v", r)
			c.panicked = true
		}
	}()
	c.runInner(l)
}

func (c *SCall) runInner(l klevdb.Log) {
	switch c.Kind {
	case "publish":
		c.pub = make([]klevdb.Message, len(c.Msgs))
		for i, in := range c.Msgs {
			c.pub[i] = klevdb.Message{Offset: in.Bogus, Time: time.UnixMicro(in.TS), Key: []byte(in.K), Value: []byte(in.V)}
		}
		c.rnext, c.rerr = l.Publish(c.pub)
	case "consume":
		c.rnext, c.rmsgs, c.rerr = l.Consume(c.Off, c.Max)
	case "consumebykey":
		c.rnext, c.rmsgs, c.rerr = l.ConsumeByKey([]byte(c.Key), c.Off, c.Max)
	case "get":
		c.rmsg, c.rerr = l.Get(c.Off)
	case "getbykey":
		c.rmsg, c.rerr = l.GetByKey([]byte(c.Key))
	case "getbytime":
		c.rmsg, c.rerr = l.GetByTime(time.UnixMicro(c.TS))
	case "delete":
		c.rmsgs, _, c.rerr = l.Delete(offsetSet(c.Set))
	case "next":
		c.rnext, c.rerr = l.NextOffset()
	case "sync":
		c.rnext, c.rerr = l.Sync()
	case "gc":
		c.rerr = l.GC(0)
	case "stat":
		_, c.rerr = l.Stat()
	}
}

// step checks the observed result of c against model state s (the sequential contract) and returns the next state.
func (c *SCall) step(s *Model) (bool, *Model) {
	if c.panicked {
		return false, s
	}
	switch c.Kind {
	case "publish":
		if c.rerr != nil || c.rnext != s.Next+int64(len(c.pub)) {
			return false, s
		}
		n := s.Clone()
		for i, m := range c.pub {
			if m.Offset != s.Next+int64(i) {
				return false, s
			}
			n.Append(FromMessage(m))
		}
		return true, n
	case "next", "sync":
		return c.rerr == nil && c.rnext == s.Next, s
	case "gc", "stat", "reopen", "reopen-exact":
		return c.rerr == nil, s
	case "consume":
		if c.Off > s.Next {
			return errors.Is(c.rerr, klevdb.ErrInvalidOffset), s
		}
		if c.rerr != nil {
			return false, s
		}
		if c.Off == klevdb.OffsetNewest {
			return c.rnext == s.Next && len(c.rmsgs) == 0, s
		}
		i := s.Idx(c.Off)
		if c.Off < 0 {
			i = 0
		}
		if len(c.rmsgs) > 0 {
			if int64(len(c.rmsgs)) > c.Max {
				return false, s
			}
			for j, m := range c.rmsgs {
				if i+j >= len(s.Live) || !s.Live[i+j].Eq(m) {
					return false, s
				}
			}
			return c.rnext == c.rmsgs[len(c.rmsgs)-1].Offset+1, s
		}
		if i < len(s.Live) && s.Live[i].Off < c.rnext {
			return false, s
		}
		if c.Off >= 0 && c.rnext < c.Off {
			return false, s
		}
		if i >= len(s.Live) && c.rnext != s.Next {
			return false, s
		}
		return c.rnext <= s.Next, s
	case "consumebykey":
		if c.rerr != nil {
			return false, s
		}
		if c.Off == klevdb.OffsetNewest {
			return c.rnext == s.Next && len(c.rmsgs) == 0, s
		}
		var rem []Msg
		for _, x := range s.WithKey(c.Key) {
			if x.Off >= c.Off || c.Off < 0 {
				rem = append(rem, x)
			}
		}
		if len(c.rmsgs) > len(rem) || int64(len(c.rmsgs)) > c.Max {
			return false, s
		}
		for i := range c.rmsgs {
			if !rem[i].Eq(c.rmsgs[i]) {
				return false, s
			}
		}
		if len(c.rmsgs) == 0 {
			if len(rem) > 0 && rem[0].Off < c.rnext {
				return false, s
			}
			if len(rem) == 0 && c.rnext != s.Next && c.Off <= s.Next {
				return false, s
			}
			return true, s
		}
		return c.rnext == c.rmsgs[len(c.rmsgs)-1].Offset+1, s
	case "get":
		switch {
		case c.Off == klevdb.OffsetNewest || c.Off == klevdb.OffsetOldest:
			if len(s.Live) == 0 {
				return errors.Is(c.rerr, klevdb.ErrInvalidOffset), s
			}
			w := s.Live[0]
			if c.Off == klevdb.OffsetNewest {
				w = s.Live[len(s.Live)-1]
			}
			return c.rerr == nil && w.Eq(c.rmsg), s
		case c.Off < 0:
			return c.rerr != nil, s
		default:
			if x, ok := s.Find(c.Off); ok {
				return c.rerr == nil && x.Eq(c.rmsg), s
			}
			if c.Off < s.Next {
				return errors.Is(c.rerr, klevdb.ErrNotFound), s
			}
			return errors.Is(c.rerr, klevdb.ErrInvalidOffset), s
		}
	case "getbykey":
		w, ok := s.LastWithKey(c.Key)
		if !ok {
			return errors.Is(c.rerr, klevdb.ErrNotFound), s
		}
		return c.rerr == nil && w.Eq(c.rmsg), s
	case "getbytime":
		w, ok := s.FirstAtOrAfterTime(c.TS)
		if !ok {
			if len(s.Live) == 0 {
				return errors.Is(c.rerr, klevdb.ErrNotFound) || errors.Is(c.rerr, klevdb.ErrInvalidOffset), s
			}
			return errors.Is(c.rerr, klevdb.ErrNotFound), s
		}
		return c.rerr == nil && w.Eq(c.rmsg), s
	case "delete":
		if c.rerr != nil {
			return (errors.Is(c.rerr, klevdb.ErrNotFound) || errors.Is(c.rerr, klevdb.ErrInvalidOffset)) && len(c.rmsgs) == 0, s
		}
		n := s.Clone()
		req := offsetSet(c.Set)
		for _, d := range c.rmsgs {
			if _, ok := req[d.Offset]; !ok {
				return false, s
			}
			x, ok := n.Find(d.Offset)
			if !ok || !x.Eq(d) {
				return false, s
			}
			n.Remove(d.Offset)
		}
		return true, n
	}
	return false, s
}

// linearizable: some order of the calls, consistent with real time, replays on the model with every
// observed result admissible.
func linearizable(s *Model, calls []*SCall) (bool, *Model) {
	n := len(calls)
	used := make([]bool, n)
	var final *Model
	var rec func(s *Model, done int) bool
	rec = func(s *Model, done int) bool {
		if done == n {
			final = s
			return true
		}
		for i, c := range calls {
			if used[i] {
				continue
			}
			ok := true
			for j, d := range calls {
				if !used[j] && j != i && d.ret < c.inv {
					ok = false
				}
			}
			if !ok {
				continue
			}
			if v, ns := c.step(s); v {
				used[i] = true
				if rec(ns, done+1) {
					return true
				}
				used[i] = false
			}
		}
		return false
	}
	ok := rec(s, 0)
	return ok, final
}

type WinCase struct {
	Rollover int64    `json:"rollover"`
	Keep     bool     `json:"keep"`
	V1       bool     `json:"v1"`
	AutoSync bool     `json:"autosync,omitempty"`
	Prefix   []*SCall `json:"prefix"`
	A        *SCall   `json:"a"`
	Point    string   `json:"point"`
	Hit      int      `json:"hit"` // arm the point at its (Hit+1)-th occurrence in A
	Bs       []*SCall `json:"bs"`
	// Suffix: sequential calls after the window (held to the sequential contract like the prefix), run before the full
	// observation when SuffixFirst (an observation reloads everything and would hide state the window left behind)
	Suffix      []*SCall `json:"suffix,omitempty"`
	SuffixFirst bool     `json:"suffix_first,omitempty"`
}

var winKeys = [][]byte{[]byte("a"), []byte("b"), collisionPairs[0][0], collisionPairs[0][1]}

var pointsByKind = map[string][]string{
	"publish": {"publish.rollover.before-swap", "publish.rollover.after-swap", "publish.batch.after-record", "publish.batch.after-record", "publish.batch.before-visible"},
	"delete":  {"delete.reader-found", "delete.reader-found", "delete.target-chosen", "delete.after-rewrite", "delete.after-rewrite", "delete.before-swap"},
	"read":    {"reader.consume.after-index", "reader.consume.after-messages", "reader.index.before-load", "reader.index.before-load", "reader.messages.before-open"},
	"gc":      {"reader.gc.after-index-drop"},
}

type winGen struct {
	t    *rapid.T
	m    *Model
	maxT int64
}

func (g *winGen) msgs(n int) []MsgIn {
	out := make([]MsgIn, n)
	for i := range out {
		g.maxT += int64(pick(g.t, []int{0, 0, 1, 2}, "dt"))
		out[i] = MsgIn{TS: g.maxT, K: append([]byte{}, pick(g.t, winKeys, "key")...), V: pattern(1+uni(g.t, 30, "vlen"), byte(uni(g.t, 256, "vseed"))), Bogus: int64(uni(g.t, 5, "bogus")) - 2}
	}
	return out
}

func (g *winGen) call(kinds []string) *SCall {
	m := g.m
	k := pick(g.t, kinds, "call_kind")
	c := &SCall{Kind: k}
	switch k {
	case "publish":
		c.Msgs = g.msgs(uni(g.t, 4, "n"))
	case "consume":
		c.Off = int64(uni(g.t, int(m.Next)+4, "off")) - 2
		c.Max = int64(1 + uni(g.t, 5, "max"))
	case "consumebykey":
		c.Key = append([]byte{}, pick(g.t, winKeys, "key")...)
		c.Off = int64(uni(g.t, int(m.Next)+3, "off")) - 2
		c.Max = int64(1 + uni(g.t, 3, "max"))
	case "get":
		c.Off = int64(uni(g.t, int(m.Next)+5, "off")) - 2
	case "getbykey":
		c.Key = append([]byte{}, pick(g.t, winKeys, "key")...)
	case "getbytime":
		c.TS = 9 + int64(uni(g.t, int(g.maxT-9)+3, "ts"))
	case "delete":
		set := map[int64]struct{}{}
		switch {
		case len(m.Live) > 0 && uni(g.t, 3, "tail") == 0:
			set[m.Live[len(m.Live)-1].Off] = struct{}{}
		case len(m.Live) > 0:
			n := 1 + uni(g.t, 3, "n")
			for i := 0; i < n; i++ {
				set[m.Live[uni(g.t, len(m.Live), "ix")].Off] = struct{}{}
			}
		default:
			set[int64(uni(g.t, int(m.Next)+2, "off"))] = struct{}{}
		}
		c.Set = sortedOffsets(set)
	}
	return c
}

var allCallKinds = []string{"publish", "publish", "consume", "consume", "consumebykey", "get", "getbykey", "getbytime", "delete", "delete", "next", "sync", "gc", "stat"}

type winEnv struct {
	c    *WinCase
	dir  string
	opts klevdb.Options
	l    klevdb.Log
	m    *Model
	clk  atomic.Int64
}

func newWinEnv(c *WinCase) (*winEnv, error) {
	root := MkScratch("vf-c08-")
	w := &winEnv{c: c, dir: root, m: NewModel()}
	o := klevdb.Options{KeyIndex: true, TimeIndex: true, Rollover: c.Rollover, AutoSync: c.AutoSync}
	o.Version.KeepRewriteVersion = c.Keep
	if c.V1 {
		o.Version.NewSegmentsVersion = klevdb.V1
	}
	l, err := klevdb.Open(filepath.Join(root), o)
	if err != nil {
		os.RemoveAll(root)
		return nil, err
	}
	w.l = l
	w.opts = o
	return w, nil
}

func (w *winEnv) cleanup() {
	verifhook.SetPause(nil)
	if deadlockSeen.Swap(false) {
		return // Close would wait for the same locks; the wedged goroutines are abandoned
	}
	_ = w.l.Close()
	_ = os.RemoveAll(w.dir)
}

func (w *winEnv) seq(c *SCall) {
	c.inv = w.clk.Add(1)
	if c.Kind == "reopen" {
		// close, remove every index file, reopen: every segment is lazy again and has to rebuild its index
		c.rerr = w.l.Close()
		if c.rerr == nil {
			es, _ := filepath.Glob(filepath.Join(w.dir, "*.index"))
			for _, f := range es {
				_ = os.Remove(f)
			}
			var l klevdb.Log
			l, c.rerr = klevdb.Open(w.dir, w.opts)
			if c.rerr == nil {
				w.l = l
			}
		}
	} else if c.Kind == "reopen-exact" {
		// close and reopen with Rollover set to the exact size of the head's log file: the boundary every
		// "is this segment full" test has to agree on
		c.rerr = w.l.Close()
		if c.rerr == nil {
			if names, _ := listLogs(w.dir); len(names) > 0 {
				if fi, err := os.Stat(filepath.Join(w.dir, names[len(names)-1])); err == nil && fi.Size() > 8 {
					w.opts.Rollover = fi.Size()
				}
			}
			var l klevdb.Log
			l, c.rerr = klevdb.Open(w.dir, w.opts)
			if c.rerr == nil {
				w.l = l
			}
		}
	} else {
		c.run(w.l)
	}
	c.ret = w.clk.Add(1)
	ok, ns := c.step(w.m)
	if !ok {
		panic(&Violation{Oracle: "linearizable", Msg: fmt.Sprintf("sequential prefix call violates the sequential contract: %v (model next=%d live=%v)", c, w.m.Next, w.m.Offsets())})
	}
	w.m = ns
}

// window runs A held at the armed point with the Bs inside; returns whether the point was hit.
func (w *winEnv) window(st *Stats) bool {
	c := w.c
	hit := make(chan struct{})
	release := make(chan struct{})
	released := false
	doRelease := func() {
		if !released {
			released = true
			close(release)
		}
	}
	defer doRelease()
	var armed atomic.Bool
	armed.Store(true)
	var skip atomic.Int64
	skip.Store(int64(c.Hit))
	var agid atomic.Int64
	timed := os.Getenv("VF_TIMED") != ""
	verifhook.SetPause(func(p string) {
		if p == c.Point && goid() == agid.Load() && skip.Add(-1) < 0 && armed.CompareAndSwap(true, false) {
			close(hit)
			if timed {
				// race-detector mode: hold A by sleeping. A controlled release (channel) would add a
				// happens-before edge from the other calls to the rest of A and hide races from the detector.
				time.Sleep(2500 * time.Microsecond)
				return
			}
			<-release
		}
	})
	defer verifhook.SetPause(nil)
	if strings.HasPrefix(c.Point, "fs:") {
		// the same, at a file-system step of A (FS tap): A is held right after that step
		site := strings.TrimPrefix(c.Point, "fs:")
		verifhook.SetFS(func(op, s, p1, p2 string) {
			if s == site && goid() == agid.Load() && skip.Add(-1) < 0 && armed.CompareAndSwap(true, false) {
				close(hit)
				if timed {
					time.Sleep(2500 * time.Microsecond)
					return
				}
				<-release
			}
		})
		defer verifhook.SetFS(nil)
	}
	adone := make(chan struct{})
	a := c.A
	var pmu sync.Mutex
	finished := map[*SCall]bool{}
	var started []*SCall
	pending := func() []*SCall {
		pmu.Lock()
		defer pmu.Unlock()
		var out []*SCall
		for _, x := range started {
			if !finished[x] {
				out = append(out, x)
			}
		}
		return out
	}
	markStart := func(x *SCall) {
		x.gid.Store(goid())
		pmu.Lock()
		started = append(started, x)
		pmu.Unlock()
	}
	markDone := func(x *SCall) {
		pmu.Lock()
		finished[x] = true
		pmu.Unlock()
	}
	what := func() string {
		return fmt.Sprintf("A = %s held at %s (occurrence %d, released=%v), calls inside: %v; state before: next=%d live=%v", a.Kind, c.Point, c.Hit+1, released, c.Bs, w.m.Next, w.m.Offsets())
	}
	go func() {
		agid.Store(goid())
		markStart(a)
		a.inv = w.clk.Add(1)
		a.run(w.l)
		a.ret = w.clk.Add(1)
		markDone(a)
		close(adone)
	}()
	calls := []*SCall{a}
	wasHit := false
	select {
	case <-hit:
		wasHit = true
		for _, b := range c.Bs {
			b := b
			calls = append(calls, b)
			bd := make(chan struct{})
			go func() {
				markStart(b)
				b.inv = w.clk.Add(1)
				b.run(w.l)
				b.ret = w.clk.Add(1)
				markDone(b)
				close(bd)
			}()
			if !released {
				select {
				case <-bd:
					st.Inc("b_completed_inside_window")
				case <-time.After(15 * time.Millisecond):
					// b waits for a lock A holds: let A go on (this only steers the schedule)
					st.Inc("b_blocked_behind_a")
					doRelease()
					awaitCalls(bd, pending, what)
				}
			} else {
				awaitCalls(bd, pending, what)
			}
		}
		doRelease()
		awaitCalls(adone, pending, what)
	case <-adone:
		armed.Store(false)
		// the point was not reached: run the Bs sequentially after A (still a valid, if plain, history)
		for _, b := range c.Bs {
			calls = append(calls, b)
			b.inv = w.clk.Add(1)
			b.run(w.l)
			b.ret = w.clk.Add(1)
		}
	}
	var ss string
	for _, x := range calls {
		ss += fmt.Sprintf("\n    [%d,%d] %v", x.inv, x.ret, x)
	}
	ok, final := linearizable(w.m, calls)
	if !ok {
		panic(&Violation{Oracle: "linearizable", Msg: fmt.Sprintf("not linearizable: A held at %s (occurrence %d), state before: next=%d live=%v; calls [invoke,return]:%s", c.Point, c.Hit+1, w.m.Next, w.m.Offsets(), ss)})
	}
	// afterwards (quiescent) the log must be exactly the state every linearization ends in: nothing
	// changed, disappeared or became unreachable except what a Delete reported
	verifhook.SetPause(nil)
	before := fmt.Sprintf("A held at %s (occurrence %d), state before: next=%d live=%v; calls [invoke,return]:%s", c.Point, c.Hit+1, w.m.Next, w.m.Offsets(), ss)
	w.m = final
	observe := func(when string) {
		ve := &Env{P: &Profile{Name: "C08", Own: own("after")}, Cfg: HConfig{KeyIndex: true, TimeIndex: true}, Dir: w.dir, M: w.m, St: st, flags: map[string]bool{}}
		if v := protect(func() {
			ve.observeWith(w.l, w.dir, obsTags{next: "after", scan: "after", consume: "after", get: "after", key: "after", time: "after", stat: "after"}, "log "+when)
		}); v != nil {
			panic(&Violation{Oracle: "after-window", Msg: fmt.Sprintf("%s the log does not match the linearization of the calls: %s\n  %s\n  then sequentially: %v", when, v.Msg, before, c.Suffix)})
		}
	}
	if !c.SuffixFirst {
		observe("after the window")
	}
	if len(c.Suffix) > 0 {
		if v := protect(func() {
			for _, p := range c.Suffix {
				w.seq(p)
			}
		}); v != nil {
			panic(&Violation{Oracle: "after-window", Msg: fmt.Sprintf("a sequential call after the window misbehaves: %s\n  %s\n  then sequentially: %v", v.Msg, before, c.Suffix)})
		}
		st.Inc("windows_followed_by_sequential_calls")
		observe("after the window and the sequential calls that followed")
	} else if c.SuffixFirst {
		observe("after the window")
	}
	return wasHit
}

func runWinCase(c *WinCase, st *Stats) {
	w, err := newWinEnv(c)
	if err != nil {
		cfail("err", "open: %v", err)
	}
	defer w.cleanup()
	for _, p := range c.Prefix {
		w.seq(p)
	}
	hit := w.window(st)
	st.Eval(1)
	if hit {
		st.Inc("point_hit." + c.Point)
		kinds := ""
		for _, b := range c.Bs {
			kinds += b.Kind + ","
		}
		st.NonTrivialStr(fmt.Sprintf("%s|%s|%s|%d|%x", c.Point, c.A.Kind, kinds, c.Hit, sha8(mustJSON(c))))
		if st.WantSample() {
			st.Sample(c)
		}
	} else {
		st.Inc("point_not_reached")
	}
}

func TestC08Windows(t *testing.T) {
	st := NewStats("C08")
	defer st.Write()
	var lastCase *WinCase
	var lastViol *Violation
	defer func() {
		if t.Failed() && lastCase != nil {
			path := WriteReplay("C08", "windows", lastViol, lastCase)
			fmt.Printf("%v\nVIOLATION property=C08 replay=%s\n", lastViol, path)
		}
	}()
	rapid.Check(t, func(rt *rapid.T) {
		c := &WinCase{Rollover: int64(pick(rt, []int{60, 130, 250}, "rollover")), Keep: uni(rt, 3, "keep") > 0, V1: uni(rt, 4, "v1") == 3, AutoSync: uni(rt, 4, "autosync") == 3}
		w, err := newWinEnv(c)
		if err != nil {
			rt.Fatalf("open: %v", err)
		}
		defer w.cleanup()
		v := protect(func() {
			g := &winGen{t: rt, m: w.m, maxT: 10}
			np := 1 + uni(rt, 7, "prefix_len")
			for i := 0; i < np; i++ {
				g.m = w.m
				p := g.call([]string{"publish", "publish", "publish", "delete", "gc"})
				c.Prefix = append(c.Prefix, p)
				w.seq(p)
			}
			g.m = w.m
			exact := uni(rt, 6, "exact_rollover") == 5
			if exact {
				p := &SCall{Kind: "reopen-exact"}
				c.Prefix = append(c.Prefix, p)
				w.seq(p)
				st.Inc("cases_with_rollover_equal_to_head_size")
			}
			// A and its pause point, chosen so that the point is likely to be reached in the current state
			c.Hit = 0
			oldLive := func() int64 { // an offset in the oldest part of the log (a reader segment when there are several)
				if len(w.m.Live) == 0 {
					return 0
				}
				return w.m.Live[uni(rt, (len(w.m.Live)+2)/3, "old_ix")].Off
			}
			switch pick(rt, []string{"publish", "publish", "delete", "delete", "read", "read", "gc", "lazy", "fs"}, "a_kind") {
			case "lazy":
				// all index files removed and the log reopened: A rebuilds the index of an old segment and is held
				// at a file-system step of that rebuild
				p := &SCall{Kind: "reopen"}
				c.Prefix = append(c.Prefix, p)
				w.seq(p)
				c.A = g.call([]string{"stat", "stat", "consume", "get", "getbykey", "consumebykey"})
				if c.A.Kind == "consume" || c.A.Kind == "get" || c.A.Kind == "consumebykey" {
					c.A.Off = oldLive()
				}
				c.Point = pick(rt, []string{"fs:index.OpenWriter", "fs:index.OpenWriter/header", "fs:index.Writer.Write", "fs:index.Writer.Sync", "fs:index.Write"}, "point")
			case "fs":
				if rapid.Bool().Draw(rt, "fs_publish") {
					c.A = &SCall{Kind: "publish", Msgs: g.msgs(1 + uni(rt, 3, "n"))}
					c.Point = pick(rt, []string{"fs:message.Writer.Write", "fs:index.Writer.Write", "fs:message.OpenWriter/header", "fs:message.Writer.Sync"}, "point")
					if c.Point == "fs:message.Writer.Write" || c.Point == "fs:index.Writer.Write" {
						c.Hit = uni(rt, len(c.A.Msgs), "hit")
					}
				} else {
					c.A = g.call([]string{"delete"})
					c.Point = pick(rt, []string{"fs:message.Writer.Write", "fs:message.Writer.Sync", "fs:index.Write", "fs:Rename/log", "fs:Override/log", "fs:Override/drop-index", "fs:Remove/index"}, "point")
				}
			case "publish":
				c.A = &SCall{Kind: "publish", Msgs: g.msgs(1 + uni(rt, 3, "n"))}
				c.Point = pick(rt, pointsByKind["publish"], "point")
				if c.Point == "publish.batch.after-record" {
					c.Hit = uni(rt, len(c.A.Msgs), "hit")
				}
			case "delete":
				c.A = g.call([]string{"delete"})
				c.Point = pick(rt, pointsByKind["delete"], "point")
				if c.Point == "delete.before-swap" && len(w.m.Live) > 0 {
					c.A.Set = []int64{oldLive()}
				}
			case "read":
				c.Point = pick(rt, pointsByKind["read"], "point")
				if c.Point == "reader.index.before-load" || c.Point == "reader.messages.before-open" {
					// unload the reader segments first
					p := &SCall{Kind: "gc"}
					c.Prefix = append(c.Prefix, p)
					w.seq(p)
					c.A = g.call([]string{"consume", "get", "getbykey", "getbytime", "consumebykey"})
					if c.A.Kind == "consume" || c.A.Kind == "get" || c.A.Kind == "consumebykey" {
						c.A.Off = oldLive()
					}
				} else {
					c.A = g.call([]string{"consume"})
					if len(w.m.Live) > 0 {
						c.A.Off = w.m.Live[uni(rt, len(w.m.Live), "ix")].Off
					}
				}
			default:
				c.A = &SCall{Kind: "gc"}
				c.Point = "reader.gc.after-index-drop"
				c.Hit = pick(rt, []int{0, 0, 1}, "hit")
			}
			nb := 1 + uni(rt, 2, "nb")
			for i := 0; i < nb; i++ {
				c.Bs = append(c.Bs, g.call(allCallKinds))
			}
			// focused templates (half of the cases): the calls inside the window touch what A is working on
			if rapid.Bool().Draw(rt, "focused") {
				newest := func() []int64 {
					if len(w.m.Live) == 0 {
						return []int64{0}
					}
					return []int64{w.m.Live[len(w.m.Live)-1].Off}
				}
				rollingPublish := func() *SCall { // enough bytes to pass every rollover size used here
					return &SCall{Kind: "publish", Msgs: g.msgs(4 + uni(rt, 3, "n"))}
				}
				switch c.A.Kind {
				case "stat", "consume", "get", "getbykey", "consumebykey", "getbytime":
					if strings.HasPrefix(c.Point, "fs:") {
						// another first touch of the same lazy segment
						b := g.call([]string{"stat", "consume", "get", "getbykey", "stat"})
						if b.Kind == "consume" || b.Kind == "get" {
							b.Off = oldLive()
						}
						c.Bs = []*SCall{b}
						if rapid.Bool().Draw(rt, "then_more") {
							c.Bs = append(c.Bs, g.call([]string{"stat", "consume", "gc"}))
						}
						break
					}
					c.Bs = []*SCall{{Kind: "gc"}, {Kind: "delete", Set: []int64{oldLive()}}}
					if rapid.Bool().Draw(rt, "swap") {
						c.Bs[0], c.Bs[1] = c.Bs[1], c.Bs[0]
					}
				case "delete":
					if c.Point != "delete.before-swap" && rapid.Bool().Draw(rt, "head_delete") {
						c.A.Set = newest() // a delete in the writing segment ...
					}
					c.Bs = []*SCall{rollingPublish()} // ... while a publish rolls it over
					if rapid.Bool().Draw(rt, "then_more") {
						c.Bs = append(c.Bs, g.call([]string{"publish", "consume", "get", "delete", "sync", "next", "stat"}))
					}
				case "publish":
					c.Bs = []*SCall{g.call([]string{"delete", "delete", "gc", "stat", "sync", "next", "consume", "getbykey", "getbytime"})}
					if c.Bs[0].Kind == "delete" && rapid.Bool().Draw(rt, "head_delete") {
						c.Bs[0].Set = newest()
					}
					if rapid.Bool().Draw(rt, "then_more") {
						c.Bs = append(c.Bs, g.call([]string{"consume", "get", "consumebykey", "publish"}))
					}
				case "gc":
					b := g.call([]string{"consume", "get", "getbykey", "getbytime", "consumebykey", "delete"})
					if b.Kind == "consume" || b.Kind == "get" || b.Kind == "consumebykey" {
						b.Off = oldLive()
					} else if b.Kind == "delete" {
						b.Set = []int64{oldLive()}
					}
					c.Bs = []*SCall{b, {Kind: "gc"}}
				default: // a read held inside a reader segment: unload it, delete in it
					c.Bs = []*SCall{{Kind: "gc"}, {Kind: "delete", Set: []int64{oldLive()}}}
					if rapid.Bool().Draw(rt, "swap") {
						c.Bs[0], c.Bs[1] = c.Bs[1], c.Bs[0]
					}
				}
				st.Inc("focused_cases")
			}
			if c.A.Kind == "getbytime" && c.Point == "reader.index.before-load" && len(w.m.Live) >= 2 && uni(rt, 3, "empty_head_template") > 0 {
				// a time lookup beyond every live message on a log whose head has just been emptied, while a Publish puts a
				// message into that head whose time is still before the one asked for: the lookup has to walk from the
				// empty head back into a segment it must load first
				p := &SCall{Kind: "delete", Set: []int64{w.m.Live[len(w.m.Live)-1].Off}}
				c.Prefix = append(c.Prefix, p)
				w.seq(p)
				p2 := &SCall{Kind: "gc"}
				c.Prefix = append(c.Prefix, p2)
				w.seq(p2)
				top := w.m.MaxT
				if g.maxT > top {
					top = g.maxT
				}
				c.A.TS = top + 5
				c.Bs = []*SCall{{Kind: "publish", Msgs: []MsgIn{{TS: top + int64(uni(rt, 5, "pub_ts")), K: append([]byte{}, winKeys[0]...), V: []byte("late")}}}}
				g.maxT = top + 5
				st.Inc("empty_head_time_lookup_cases")
			}
			if exact && c.A.Kind == "delete" && len(w.m.Live) > 0 && rapid.Bool().Draw(rt, "exact_template") {
				// the head is exactly as big as Rollover: a delete in it, one publish that still fits by the writer's
				// own test, one that rolls
				c.A.Set = []int64{w.m.Live[len(w.m.Live)-1].Off}
				if len(w.m.Live) > 1 && rapid.Bool().Draw(rt, "second_newest") {
					c.A.Set = []int64{w.m.Live[len(w.m.Live)-2].Off}
				}
				c.Bs = []*SCall{{Kind: "publish", Msgs: g.msgs(1)}, {Kind: "publish", Msgs: g.msgs(1)}}
			}
			// what follows the window: nothing, or one or two sequential calls that depend on what the window left behind
			// (a delete in an old segment needs it closed and reloads it; GC needs its use counts back at zero)
			if uni(rt, 3, "suffix") > 0 {
				ns := 1 + uni(rt, 2, "n_suffix")
				for i := 0; i < ns; i++ {
					var p *SCall
					switch k := pick(rt, []string{"delete-old", "delete-old", "gc", "delete", "publish", "consume"}, "suffix_kind"); k {
					case "delete-old":
						p = &SCall{Kind: "delete", Set: []int64{oldLive()}}
					case "gc":
						p = &SCall{Kind: "gc"}
					default:
						p = g.call([]string{k})
					}
					c.Suffix = append(c.Suffix, p)
				}
				c.SuffixFirst = uni(rt, 3, "suffix_first") > 0
			}
			hit := w.window(st)
			st.Eval(1)
			if hit {
				st.Inc("point_hit." + c.Point)
				kinds := ""
				for _, b := range c.Bs {
					kinds += b.Kind + ","
				}
				st.NonTrivialStr(fmt.Sprintf("%s|%s|%s|%d|%x", c.Point, c.A.Kind, kinds, c.Hit, sha8(mustJSON(c))))
				if st.WantSample() {
					st.Sample(c)
				}
			} else {
				st.Inc("point_not_reached")
			}
		})
		if v != nil {
			lastCase, lastViol = c, v
			rt.Fatalf("%s", v.Error())
		}
	})
}

func init() { registerReplay("windows", runWinCase) }

var _ = bytes.Equal
