package vf

// C13 boundary probe: the largest message the writer accepts (key+value = 64 MiB) and its neighbours must
// read back identical through both reader kinds and through the API (also across a reopen with Recover,
// which must not mistake them for a corrupt tail); one byte more must be refused by Publish and leave the
// log as it was. Random generation cannot reach a 32-byte window at 64 MiB; this is a fixed enumeration.

import (
	"bytes"
	"fmt"
	"os"
	"path/filepath"
	"testing"
	"time"

	"github.com/klev-dev/klevdb"
	"github.com/klev-dev/klevdb/pkg/index"
	"github.com/klev-dev/klevdb/pkg/message"
)

const maxBody = 64 << 20

func TestC13Boundary(t *testing.T) {
	st := NewStats("C13")
	defer st.Write()
	fail := func(format string, args ...any) {
		v := &Violation{Oracle: "codec", Msg: fmt.Sprintf(format, args...)}
		path := WriteReplay("C13", "probe", v, map[string]any{"probe": "largest accepted message sizes", "detail": v.Msg})
		fmt.Printf("%v\nVIOLATION property=C13 replay=%s\n", v, path)
		t.FailNow()
	}
	root := MkScratch("vf-c13b-")
	defer os.RemoveAll(root)
	big := pattern(maxBody, 3)
	sizes := []int{maxBody, maxBody - 1, maxBody - 31, maxBody - 32, maxBody - 33, maxBody - 36, maxBody - 37}
	if !thoroughTier() {
		sizes = []int{maxBody, maxBody - 32, maxBody - 33}
	}
	for si, sz := range sizes {
		for _, v2 := range []bool{true, false} {
			if !v2 && si > 0 {
				continue
			}
			ver := message.V1
			if v2 {
				ver = message.V2
			}
			// codec level, both reader kinds
			p := filepath.Join(root, "b.log")
			_ = os.Remove(p)
			w, err := message.OpenWriter(p, 0, ver)
			if err != nil {
				fail("open writer: %v", err)
			}
			key := []byte("kk")
			val := big[:sz-len(key)]
			pos, err := w.Write(message.Message{Offset: 0, Time: time.UnixMicro(7), Key: key, Value: val})
			if err != nil {
				fail("writer refused a message with key+value = %d bytes (the bound is %d): %v", sz, maxBody, err)
			}
			_ = w.SyncAndClose()
			for _, mem := range []bool{false, true} {
				r := openReader(p, 0, mem)
				if r == nil {
					fail("open reader failed")
				}
				g, err := r.Get(pos)
				_ = r.Close()
				if err != nil || g.Offset != 0 || !bytes.Equal(g.Key, key) || !bytes.Equal(g.Value, val) {
					fail("a message with key+value = %d bytes (v2=%v, mmap=%v) was written but does not read back: %v", sz, v2, mem, err)
				}
			}
			_ = os.Remove(p)
			st.Eval(1)
			st.NonTrivialStr(fmt.Sprintf("size|%d|%v", sz, v2))
		}
	}
	// API level: publish small, largest, small; read; reopen with Recover; read again
	dir := filepath.Join(root, "log")
	_ = os.MkdirAll(dir, 0700)
	opts := klevdb.Options{KeyIndex: true, TimeIndex: true, Rollover: 1 << 30}
	l, err := klevdb.Open(dir, opts)
	if err != nil {
		fail("open: %v", err)
	}
	msgs := []klevdb.Message{
		{Time: time.UnixMicro(10), Key: []byte("a"), Value: []byte("small")},
		{Time: time.UnixMicro(11), Key: []byte("bb"), Value: big[:maxBody-2]},
		{Time: time.UnixMicro(12), Key: []byte("c"), Value: []byte("after")},
	}
	if n, err := l.Publish(msgs); err != nil || n != 3 {
		fail("Publish of the largest accepted message failed: %d,%v", n, err)
	}
	too := []klevdb.Message{{Time: time.UnixMicro(13), Key: []byte("bb"), Value: big[:maxBody-1]}}
	if _, err := l.Publish(too); err == nil {
		st.Inc("oversize_accepted") // not part of the property: the bound itself is the code's choice
	}
	check := func(l klevdb.Log, what string) {
		off := klevdb.OffsetOldest
		var got []klevdb.Message
		for i := 0; i < 10; i++ {
			no, ms, err := l.Consume(off, 2)
			if err != nil {
				fail("%s: Consume(%d) failed: %v", what, off, err)
			}
			got = append(got, ms...)
			if len(ms) == 0 {
				break
			}
			off = no
		}
		if len(got) < 3 {
			fail("%s: the log holds %d messages, 3 were published (the largest accepted message and its neighbours)", what, len(got))
		}
		for i := 0; i < 3; i++ {
			if got[i].Offset != int64(i) || !bytes.Equal(got[i].Key, msgs[i].Key) || !bytes.Equal(got[i].Value, msgs[i].Value) {
				fail("%s: message %d differs from what was published", what, i)
			}
		}
		if g, err := l.GetByKey([]byte("bb")); err != nil || len(g.Value) < maxBody-2 {
			fail("%s: GetByKey of the largest message: %v", what, err)
		}
	}
	check(l, "same handle")
	if err := l.Close(); err != nil {
		fail("close: %v", err)
	}
	o := opts
	o.Recover = true
	l, err = klevdb.Open(dir, o)
	if err != nil {
		fail("Open(Recover) of a log holding the largest accepted message failed: %v", err)
	}
	check(l, "after reopen with Recover")
	_ = l.Close()
	if err := klevdb.Check(dir, opts); err != nil {
		fail("Check of a log holding the largest accepted message failed: %v", err)
	}
	st.Eval(1)
	st.NonTrivialStr("api|largest")
}

// TestC13IndexSizes: index files whose size is around the sizes readers like to work in (4 KiB, 64 KiB, 256 KiB,
// 1 MiB, +- a few items) must read back item for item, in all four layouts and both containers, and a log with that
// many records must give the same index when it is written while publishing, loaded from the file and rebuilt from
// the log. Histories never reach ten thousand messages in one segment; this is a fixed enumeration of sizes.
func TestC13IndexSizes(t *testing.T) {
	st := NewStats("C13")
	defer st.Write()
	fail := func(format string, args ...any) {
		v := &Violation{Oracle: "codec", Msg: fmt.Sprintf(format, args...)}
		path := WriteReplay("C13", "probe", v, map[string]any{"probe": "index file sizes around block boundaries", "detail": v.Msg})
		fmt.Printf("%v\nVIOLATION property=C13 replay=%s\n", v, path)
		t.FailNow()
	}
	root := MkScratch("vf-c13i-")
	defer os.RemoveAll(root)
	bounds := []int{4096, 65536, 262144, 1 << 20}
	if !thoroughTier() {
		bounds = []int{4096, 65536, 262144}
	}
	for _, keys := range []bool{false, true} {
		for _, times := range []bool{false, true} {
			isz := int(RefItemSize(keys, times))
			for _, v2 := range []bool{true, false} {
				for _, b := range bounds {
					for _, d := range []int{-1, 0, 1, 2, 7} {
						n := b/isz + d
						items := make([]RItem, n)
						ts := int64(1000)
						for i := range items {
							ts += int64(i % 3)
							items[i] = RItem{Off: int64(5 + 2*i), Pos: int64(8 + 40*i), TS: ts, KH: uint64(i)*0x9E3779B97F4A7C15 + 1}
							if !times {
								items[i].TS = 0
							}
							if !keys {
								items[i].KH = 0
							}
						}
						p := filepath.Join(root, "x.index")
						if err := os.WriteFile(p, RefEncodeIndex(v2, items, keys, times), 0600); err != nil {
							fail("write: %v", err)
						}
						got, err := index.Read(p, 5, index.Params{Times: times, Keys: keys})
						st.Eval(1)
						st.NonTrivialStr(fmt.Sprintf("idxsize|%v|%v|%v|%d", keys, times, v2, n))
						if err != nil || len(got) != n {
							fail("index.Read of %d items (%d bytes each, keys=%v times=%v, container v2=%v): %d items, %v", n, isz, keys, times, v2, len(got), err)
						}
						for i := range items {
							if got[i].Offset != items[i].Off || got[i].Position != items[i].Pos || got[i].Timestamp != items[i].TS || got[i].KeyHash != items[i].KH {
								fail("index.Read of %d items (%d bytes each, keys=%v times=%v, container v2=%v): item %d is %+v, the file says %+v", n, isz, keys, times, v2, i, got[i], items[i])
							}
						}
					}
				}
			}
		}
	}
	st.Inc("index_size_probes")
	// through the API: one segment with more records than fit in 256 KiB of 24-byte items, reopened and re-read
	for _, cfg := range [][2]bool{{true, false}, {false, true}} {
		dir := filepath.Join(root, fmt.Sprintf("api-%v-%v", cfg[0], cfg[1]))
		opts := klevdb.Options{CreateDirs: true, KeyIndex: cfg[0], TimeIndex: cfg[1], Rollover: 1 << 30}
		l, err := klevdb.Open(dir, opts)
		if err != nil {
			fail("open: %v", err)
		}
		const N = 11000
		batch := make([]klevdb.Message, 500)
		for i := 0; i < N; i += len(batch) {
			for j := range batch {
				batch[j] = klevdb.Message{Time: time.UnixMicro(int64(1000 + i + j)), Key: []byte(fmt.Sprintf("k%d", (i+j)%7)), Value: []byte("v")}
			}
			if _, err := l.Publish(batch); err != nil {
				fail("publish: %v", err)
			}
		}
		if err := l.Close(); err != nil {
			fail("close: %v", err)
		}
		for round, rm := range []bool{false, true} {
			if rm {
				_ = os.Remove(filepath.Join(dir, "00000000000000000000.index"))
			}
			l, err := klevdb.Open(dir, opts)
			if err != nil {
				fail("reopen (index removed=%v): %v", rm, err)
			}
			n, _ := l.NextOffset()
			g, gerr := l.Get(N - 1)
			stt, _ := l.Stat()
			st.Eval(1)
			wantNext := int64(N)
			if cfg[0] {
				wantNext += int64(7 * round)
			}
			if n != wantNext || gerr != nil || g.Offset != N-1 || stt.Messages != int(n) {
				_ = l.Close()
				fail("a segment of %d messages (keys=%v times=%v), reopened (round %d, index file removed=%v): NextOffset %d, Get(%d) -> %d,%v, Stat.Messages %d", N, cfg[0], cfg[1], round, rm, n, N-1, g.Offset, gerr, stt.Messages)
			}
			if cfg[0] {
				// the key index of a big segment loaded in one go, then every key published once more: each lookup must
				// find the new message, and the iteration over a key must return all of its messages
				base := n
				for k := 0; k < 7; k++ {
					if _, err := l.Publish([]klevdb.Message{{Time: time.UnixMicro(int64(100000 + k)), Key: []byte(fmt.Sprintf("k%d", k)), Value: []byte("again")}}); err != nil {
						_ = l.Close()
						fail("publish: %v", err)
					}
				}
				for k := 0; k < 7; k++ {
					key := []byte(fmt.Sprintf("k%d", k))
					g, err := l.GetByKey(key)
					if err != nil || g.Offset != base+int64(k) {
						_ = l.Close()
						fail("after loading the key index of %d messages and publishing every key once more, GetByKey(k%d) -> offset %d,%v want %d", n, k, g.Offset, err, base+int64(k))
					}
					cnt, off := 0, klevdb.OffsetOldest
					for {
						no, ms, err := l.ConsumeByKey(key, off, 1000)
						if err != nil {
							_ = l.Close()
							fail("ConsumeByKey(k%d,%d): %v", k, off, err)
						}
						if len(ms) == 0 {
							break
						}
						cnt += len(ms)
						off = no
					}
					want := 0
					for i := 0; i < N; i++ {
						if i%7 == k {
							want++
						}
					}
					want += round + 1
					if cnt != want {
						_ = l.Close()
						fail("after loading the key index of %d messages and publishing every key once more, ConsumeByKey(k%d) iterates over %d messages, the log holds %d with that key", n, k, cnt, want)
					}
				}
			}
			_ = l.Close()
		}
	}
}
