package vf

import (
	"encoding/json"
	"errors"
	"fmt"
	"os"
	"path/filepath"
	"runtime/debug"
	"testing"
	"testing/synctest"
	"time"

	"github.com/klev-dev/klevdb"

	"pgregory.net/rapid"
)

// runHist drives the history engine under one profile with rapid.
func runHist(t *testing.T, prof string) {
	p := Profiles[prof]
	if p == nil {
		t.Fatalf("unknown profile %s", prof)
	}
	st := NewStats(p.Prop)
	if knownProbeHits != nil {
		for k, v := range knownProbeHits.Known {
			st.Known[k] += v
			st.KnownWhat[k] = knownProbeHits.KnownWhat[k]
		}
		knownProbeHits = nil
	}
	defer st.Write()
	var lastCase *HCase
	var lastViol *Violation
	defer func() {
		if t.Failed() && lastCase != nil {
			path := WriteReplay(p.Prop, "hist", lastViol, lastCase)
			fmt.Printf("FAILING CASE (shrunk):\n%s%v\n", lastCase.String(), lastViol)
			fmt.Printf("VIOLATION property=%s replay=%s\n", p.Prop, path)
		}
	}()
	rapid.Check(t, func(rt *rapid.T) {
		cfg := genConfig(rt, p)
		e := NewEnv(p, cfg, OpenOpts{}, st)
		e.Opts = genOpts(rt, e, cfg, true, p)
		e.startOpts = e.Opts
		defer e.Cleanup()
		defer func() {
			if r := recover(); r != nil {
				v, ok := r.(*Violation)
				if !ok {
					if isRapidInternal(r) {
						panic(r)
					}
					v = &Violation{Oracle: "panic", Msg: fmt.Sprintf("step %d: panic: %v\n%s", e.Step, r, debug.Stack())}
				}
				lastCase, lastViol = e.Case(), v
				rt.Fatalf("%s", v.Error())
			}
		}()
		e.Start()
		rt.Repeat(map[string]func(*rapid.T){
			"step": func(rt *rapid.T) { e.Apply(e.GenOp(rt)) },
			"":     func(rt *rapid.T) { e.MaybeCheck() },
		})
		e.CheckAll()
		e.Finish()
	})
}

// RunHCase replays a trace through the plain interpreter (no rapid).
func RunHCase(c *HCase, st *Stats) (v *Violation) {
	p := Profiles[c.Profile]
	if p == nil {
		return &Violation{Oracle: "replay", Msg: "unknown profile " + c.Profile}
	}
	e := NewEnv(p, c.Cfg, c.Open, st)
	defer e.Cleanup()
	defer func() {
		if r := recover(); r != nil {
			if vv, ok := r.(*Violation); ok {
				v = vv
				return
			}
			v = &Violation{Oracle: "panic", Msg: fmt.Sprintf("step %d: panic: %v\n%s", e.Step, r, debug.Stack())}
		}
	}()
	e.Start()
	e.CheckAll()
	for _, op := range c.Ops {
		e.Apply(op)
		e.MaybeCheck()
	}
	e.CheckAll()
	e.Finish()
	return nil
}

func TestC01(t *testing.T) { runHist(t, "C01") }
func TestC02(t *testing.T) { runHist(t, "C02") }
func TestC03(t *testing.T) { runHist(t, "C03") }
func TestC04(t *testing.T) { runHist(t, "C04") }
func TestC09(t *testing.T) { runHist(t, "C09") }
func TestC10(t *testing.T) {
	probePreEpoch()
	runHist(t, "C10")
}

// probePreEpoch is the regression probe of known finding F1 (C10): message times before the Unix epoch.
// The generator excludes such times from time-indexed histories by construction (the index clamps
// timestamps at 0 in every code path); this fixed input shows whether the finding is still there.
func probePreEpoch() {
	st := NewStats("C10")
	root := MkScratch("vf-f1-")
	defer os.RemoveAll(root)
	l, err := klevdb.Open(root, klevdb.Options{TimeIndex: true})
	if err != nil {
		return
	}
	defer l.Close()
	if _, err := l.Publish([]klevdb.Message{{Time: time.UnixMicro(-5), Key: []byte("a")}, {Time: time.UnixMicro(-3), Key: []byte("b")}}); err != nil {
		return
	}
	m, err := l.GetByTime(time.UnixMicro(-4))
	_, err2 := l.GetByTime(time.UnixMicro(-2))
	if (err == nil && m.Offset == 1) && errors.Is(err2, klevdb.ErrNotFound) {
		return // repaired: nothing to report
	}
	const sig = "time|pre-epoch-message-times"
	if k := MatchKnown("C10", sig); k != nil {
		st.KnownHit(k.ID, k.What)
		knownProbeHits = st
		return
	}
	fmt.Printf("pre-epoch probe: GetByTime(-4) -> offset %d,%v; GetByTime(-2) -> %v\n", m.Offset, err, err2)
	fmt.Printf("VIOLATION property=C10 replay=%s\n", WriteReplay("C10", "probe", &Violation{Oracle: "time", Sig: sig, Msg: "messages at -5us,-3us: GetByTime(-4us) must return offset 1 and GetByTime(-2us) ErrNotFound"}, map[string]any{"times_us": []int64{-5, -3}, "queries_us": []int64{-4, -2}}))
	os.Exit(1)
}

var knownProbeHits *Stats

func TestC11(t *testing.T)     { runHist(t, "C11") }
func TestC12(t *testing.T)     { runHist(t, "C12") }
func TestC13Hist(t *testing.T) { runHist(t, "C13") }
func TestC15(t *testing.T)     { runHist(t, "C15") }
func TestC16(t *testing.T)     { runHist(t, "C16") }
func TestC17(t *testing.T)     { runHist(t, "C17") }
func TestC19Hist(t *testing.T) { runHist(t, "C19") }
func TestC20(t *testing.T)     { runHist(t, "C20") }

// TestReplay re-runs one saved case ($VF_REPLAY) without rapid; fails if the violation reproduces.
func TestReplay(t *testing.T) {
	path := os.Getenv("VF_REPLAY")
	if path == "" {
		t.Skip("VF_REPLAY not set")
	}
	rf, err := ReadReplay(path)
	if err != nil {
		t.Fatal(err)
	}
	if v := replayDispatch(rf); v != nil {
		fmt.Printf("%v\nVIOLATION property=%s replay=%s\n", v, rf.Property, path)
		t.Fail()
	}
}

func replayDispatch(rf *ReplayFile) *Violation {
	switch rf.Engine {
	case "hist":
		var c HCase
		if err := json.Unmarshal(rf.Case, &c); err != nil {
			return &Violation{Oracle: "replay", Msg: err.Error()}
		}
		return RunHCase(&c, NewStats(rf.Property))
	}
	if f, ok := replayers[rf.Engine]; ok {
		return f(rf)
	}
	return &Violation{Oracle: "replay", Msg: "unknown engine " + rf.Engine}
}

// replayers maps engine names to plain (rapid-free) re-execution of a saved case.
var replayers = map[string]func(*ReplayFile) *Violation{}

func registerReplay[C any](engine string, run func(*C, *Stats)) {
	replayers[engine] = func(rf *ReplayFile) *Violation {
		var c C
		if err := json.Unmarshal(rf.Case, &c); err != nil {
			return &Violation{Oracle: "replay", Msg: err.Error()}
		}
		return protect(func() { run(&c, NewStats(rf.Property)) })
	}
}

func init() {
	registerReplay("segdamage", runSegCase)
	registerReplay("codec", func(c *CodecCase, st *Stats) {
		dir := MkScratch("vf-codec-")
		defer os.RemoveAll(dir)
		runCodecCase(c, st, dir)
	})
}

// TestRegress replays every saved case of $VF_REGRESS_DIR (the committed seconds-long regression tier:
// shrunk reproductions of defects that were repaired, and of seeded changes). Bypasses rapid.
func TestRegress(t *testing.T) {
	dir := os.Getenv("VF_REGRESS_DIR")
	if dir == "" {
		t.Skip("VF_REGRESS_DIR not set")
	}
	es, _ := os.ReadDir(dir)
	st := NewStats(os.Getenv("VF_PROP"))
	defer st.Write()
	for _, en := range es {
		if filepath.Ext(en.Name()) != ".json" {
			continue
		}
		path := filepath.Join(dir, en.Name())
		rf, err := ReadReplay(path)
		if err != nil {
			t.Fatalf("%s: %v", path, err)
		}
		var v *Violation
		if rf.Engine == "notify" {
			var c NotifyCase
			if err := json.Unmarshal(rf.Case, &c); err != nil {
				t.Fatal(err)
			}
			var msg string
			synctest.Test(t, func(t *testing.T) {
				msg, _ = runNotifySchedule(&c, &listChooser{in: c.Choices}, NewStats("C18"))
			})
			if msg != "" {
				v = &Violation{Oracle: "blocking", Msg: msg}
			}
		} else {
			v = replayDispatch(rf)
		}
		st.Inc("regression_cases_replayed")
		if v != nil {
			fmt.Printf("regression case %s fails again: %v\nVIOLATION property=%s replay=%s\n", en.Name(), v, rf.Property, path)
			t.Fail()
		}
	}
}
