package vf

// C13 (format part): writer bytes == independent encoder, readers on independently encoded files,
// parser agreement on damaged/arbitrary bytes, exact sizes. Uses pkg/message and pkg/index directly.

import (
	"bytes"
	"encoding/binary"
	"errors"
	"fmt"
	"hash/crc32"
	"io"
	"math"
	"os"
	"path/filepath"
	"testing"
	"time"

	"github.com/klev-dev/klevdb/pkg/index"
	"github.com/klev-dev/klevdb/pkg/message"
	"pgregory.net/rapid"
)

type CodecMsg struct {
	Off int64    `json:"off"`
	TS  int64    `json:"ts"`
	K   HexBytes `json:"k"`
	V   HexBytes `json:"v"`
}

type CodecCase struct {
	V2     bool       `json:"v2"`
	IdxV2  bool       `json:"idx_v2"`
	Keys   bool       `json:"keys"`
	Times  bool       `json:"times"`
	Base   int64      `json:"base"`
	Msgs   []CodecMsg `json:"msgs"`
	Damage string     `json:"damage"` // "", tail, cut, flip, zero
	DPos   int        `json:"dpos"`
	DLen   int        `json:"dlen"`
	DByte  byte       `json:"dbyte"`
}

func genCodecCase(t *rapid.T) *CodecCase {
	c := &CodecCase{V2: rapid.Bool().Draw(t, "v2"), IdxV2: rapid.Bool().Draw(t, "idx_v2"), Keys: rapid.Bool().Draw(t, "keys"), Times: rapid.Bool().Draw(t, "times")}
	c.Base = rapid.OneOf(rapid.Int64Range(0, 5), rapid.Int64Range(0, 1<<40), rapid.Just(int64(math.MaxInt64-10))).Draw(t, "base")
	n := rapid.IntRange(0, 5).Draw(t, "n")
	tsGen := rapid.OneOf(rapid.Int64Range(-5, 5), rapid.Int64(), rapid.SampledFrom([]int64{math.MinInt64, math.MaxInt64, 0, 1, -1}), rapid.Int64Range(1600000000000000, 1800000000000000))
	lenGen := rapid.OneOf(rapid.IntRange(0, 3), rapid.IntRange(0, 300), rapid.IntRange(0, 40))
	for i := 0; i < n; i++ {
		m := CodecMsg{Off: c.Base + int64(i), TS: tsGen.Draw(t, "ts")}
		kl, vl := lenGen.Draw(t, "klen"), lenGen.Draw(t, "vlen")
		switch uni(t, 60, "big") {
		case 0:
			vl = 4096 + rapid.IntRange(0, 100).Draw(t, "extra")
		case 1:
			vl = 70*1024 + rapid.IntRange(0, 100).Draw(t, "extra")
		case 2:
			kl = 4096
		}
		seed := byte(rapid.IntRange(0, 255).Draw(t, "seed"))
		if kl > 0 || rapid.Bool().Draw(t, "empty_not_nil_k") {
			m.K = pattern(kl, seed)
		}
		if vl > 0 || rapid.Bool().Draw(t, "empty_not_nil_v") {
			m.V = pattern(vl, seed+1)
		}
		if kl <= 8 && kl > 0 && rapid.Bool().Draw(t, "rand_key") {
			m.K = rapid.SliceOfN(rapid.Byte(), kl, kl).Draw(t, "k")
		}
		c.Msgs = append(c.Msgs, m)
	}
	c.Damage = pick(t, []string{"", "", "tail", "cut", "flip", "zero", "flip", "flipfix", "trailerfix"}, "damage")
	c.DPos = rapid.IntRange(0, 1<<20).Draw(t, "dpos")
	c.DLen = rapid.IntRange(1, 80).Draw(t, "dlen")
	c.DByte = byte(rapid.IntRange(1, 255).Draw(t, "dbyte"))
	return c
}

func cfail(oracle, format string, args ...any) {
	panic(&Violation{Oracle: oracle, Msg: fmt.Sprintf(format, args...)})
}

func runCodecCase(c *CodecCase, st *Stats, dir string) {
	ver, iver := message.V1, index.V1
	if c.V2 {
		ver = message.V2
	}
	if c.IdxV2 {
		iver = index.V2
	}
	params := index.Params{Times: c.Times, Keys: c.Keys}
	p := filepath.Join(dir, "w.log")
	ip := filepath.Join(dir, "w.index")
	_ = os.Remove(p)
	_ = os.Remove(ip)

	// 1. writer bytes == documented layout; positions; Size
	w, err := message.OpenWriter(p, c.Base, ver)
	if err != nil {
		cfail("codec", "OpenWriter: %v", err)
	}
	var want []byte
	if c.V2 {
		want = append(want, RefLogHeaderV2...)
	}
	var recs []RRec
	var items []index.Item
	var prevTS int64
	for i, x := range c.Msgs {
		msg := message.Message{Offset: x.Off, Time: time.UnixMicro(x.TS), Key: x.K, Value: x.V}
		pos, err := w.Write(msg)
		if err != nil {
			cfail("codec", "Write: %v", err)
		}
		if pos != int64(len(want)) {
			cfail("codec", "record %d: writer reported position %d, records laid out back to back end at %d", i, pos, len(want))
		}
		enc := RefEncode(c.V2, x.Off, x.TS, x.K, x.V)
		if message.Size(msg, ver) != int64(len(enc)) {
			cfail("codec", "record %d: Size=%d, documented layout takes %d bytes", i, message.Size(msg, ver), len(enc))
		}
		recs = append(recs, RRec{Pos: pos, End: pos + int64(len(enc)), Off: x.Off, TS: x.TS, Key: x.K, Val: x.V})
		it := params.NewItem(msg, pos, prevTS)
		prevTS = it.Timestamp
		items = append(items, it)
		want = append(want, enc...)
		if w.Size() != int64(len(want)) {
			cfail("codec", "record %d: writer Size()=%d after %d bytes", i, w.Size(), len(want))
		}
	}
	if err := w.SyncAndClose(); err != nil {
		cfail("codec", "close: %v", err)
	}
	got, _ := os.ReadFile(p)
	if !bytes.Equal(got, want) {
		cfail("codec", "log file written by message.Writer differs from the documented layout (v2=%v, %d msgs): first difference at byte %d", c.V2, len(c.Msgs), firstDiff(got, want))
	}
	// index file: writer bytes == documented layout, derived items == reference derivation
	ref := RefDerive(recs, c.Keys, c.Times)
	for i := range ref {
		if items[i].Offset != ref[i].Off || items[i].Position != ref[i].Pos || items[i].Timestamp != ref[i].TS || items[i].KeyHash != ref[i].KH {
			cfail("codec", "index item %d: NewItem gives %+v, reference derivation %+v", i, items[i], ref[i])
		}
	}
	if params.Size() != RefItemSize(c.Keys, c.Times) {
		cfail("codec", "index item size %d, documented %d", params.Size(), RefItemSize(c.Keys, c.Times))
	}
	if err := index.Write(ip, c.Base, iver, params, items); err != nil {
		cfail("codec", "index.Write: %v", err)
	}
	gotIdx, _ := os.ReadFile(ip)
	wantIdx := RefEncodeIndex(c.IdxV2, ref, c.Keys, c.Times)
	if !bytes.Equal(gotIdx, wantIdx) {
		cfail("codec", "index file written by index.Write differs from the documented layout (v2=%v keys=%v times=%v): first difference at byte %d", c.IdxV2, c.Keys, c.Times, firstDiff(gotIdx, wantIdx))
	}
	// item-by-item writer
	_ = os.Remove(ip)
	iw, err := index.OpenWriter(ip, c.Base, iver, params)
	if err != nil {
		cfail("codec", "index.OpenWriter: %v", err)
	}
	for _, it := range items {
		if err := iw.Write(it); err != nil {
			cfail("codec", "index write: %v", err)
		}
	}
	if iw.Size() != int64(len(wantIdx)) {
		cfail("codec", "index writer Size()=%d, file has %d bytes", iw.Size(), len(wantIdx))
	}
	_ = iw.SyncAndClose()
	gotIdx, _ = os.ReadFile(ip)
	if !bytes.Equal(gotIdx, wantIdx) {
		cfail("codec", "index file written item by item differs from the documented layout")
	}
	sz, cnt, err := index.Stat(ip, c.Base, params)
	if (len(wantIdx) > 0 || !c.IdxV2) && (err != nil || sz != int64(len(wantIdx)) || cnt != len(items)) {
		// a V1 index whose first item does not start with the base offset cannot be recognised; only n>0 with Off==Base is written here
		cfail("codec", "index.Stat = %d,%d,%v want %d,%d", sz, cnt, err, len(wantIdx), len(items))
	}

	// 2. files written by the independent encoder are read correctly (both reader kinds)
	rp := filepath.Join(dir, "r.log")
	_ = os.WriteFile(rp, want, 0600)
	rip := filepath.Join(dir, "r.index")
	_ = os.WriteFile(rip, wantIdx, 0600)
	ritems, err := index.Read(rip, c.Base, params)
	if err != nil || len(ritems) != len(ref) {
		cfail("codec", "index.Read of an independently encoded index: %d items, %v (want %d)", len(ritems), err, len(ref))
	}
	for i := range ref {
		if ritems[i].Offset != ref[i].Off || ritems[i].Position != ref[i].Pos || ritems[i].Timestamp != ref[i].TS || ritems[i].KeyHash != ref[i].KH {
			cfail("codec", "index.Read item %d: %+v want %+v", i, ritems[i], ref[i])
		}
	}
	compareReaders("clean", rp, c.Base, want, c.V2, recs, true)
	if len(recs) > 0 {
		for _, mem := range []bool{false, true} {
			r := openReader(rp, c.Base, mem)
			if r == nil {
				cfail("codec", "open reader failed on a valid file")
			}
			// Consume over the whole range and Get at every reported position
			ms, err := r.Consume(recs[0].Pos, recs[len(recs)-1].Pos, int64(len(recs)+3))
			if err != nil || len(ms) != len(recs) {
				cfail("codec", "Reader.Consume(mem=%v) returned %d msgs, %v (want %d)", mem, len(ms), err, len(recs))
			}
			for i, rr := range recs {
				g, err := r.Get(rr.Pos)
				if err != nil || !rr.Msg().Eq(g) || !rr.Msg().Eq(ms[i]) {
					cfail("codec", "Reader.Get(mem=%v) at position %d: %+v,%v want %+v", mem, rr.Pos, g, err, rr.Msg())
				}
			}
			_ = r.Close()
		}
	}

	// 3. damaged / arbitrary bytes: the real parser and the reference parser agree record by record
	file := append([]byte{}, want...)
	minLen := 0
	if c.V2 {
		minLen = 8
	}
	switch c.Damage {
	case "tail":
		file = append(file, pattern(c.DLen, c.DByte)...)
	case "zero":
		file = append(file, make([]byte, c.DLen)...)
	case "cut":
		if len(file) > minLen {
			file = file[:minLen+c.DPos%(len(file)-minLen)]
		}
	case "flip":
		if len(file) > minLen {
			file[minLen+c.DPos%(len(file)-minLen)] ^= c.DByte
		}
	case "flipfix", "trailerfix":
		// damage that repairs the checksum of the record it hits (at the record's original boundaries): only the
		// other validity conditions of the format can tell
		if len(recs) > 0 {
			r := recs[c.DPos%len(recs)]
			pos := r.Pos + int64(c.DPos/7)%(r.End-r.Pos)
			if c.Damage == "trailerfix" {
				if !c.V2 {
					break
				}
				pos = r.End - 8 + int64(c.DPos/7)%8
			}
			file[pos] ^= c.DByte
			if c.V2 {
				binary.BigEndian.PutUint32(file[r.Pos:], crc32.Checksum(file[r.Pos+4:r.End], crc32.MakeTable(crc32.Castagnoli)))
			} else {
				binary.BigEndian.PutUint32(file[r.Pos+24:], crc32.Checksum(file[r.Pos+28:r.End], crc32.MakeTable(crc32.Castagnoli)))
			}
		}
	}
	if c.Damage != "" {
		if !c.V2 {
			// a V1 file is recognised by its first 8 bytes being the base offset (or by being empty)
			if len(file) > 0 && len(file) < 8 {
				return
			}
			if len(file) >= 8 && int64(binary.BigEndian.Uint64(file)) != c.Base {
				return
			}
			if IsV2Log(file) {
				return
			}
		}
		var rrecs []RRec
		var clean bool
		if c.V2 {
			rrecs, _, clean = RefParseV2(file)
		} else {
			rrecs, _, clean = RefParseV1(file)
		}
		_ = os.WriteFile(rp, file, 0600)
		compareReaders(c.Damage, rp, c.Base, file, c.V2, rrecs, clean)
		if len(rrecs) > 0 && !clean {
			st.Inc("damaged_with_valid_prefix")
		}
	}
}

func openReader(p string, base int64, mem bool) *message.Reader {
	var r *message.Reader
	var err error
	if mem {
		r, err = message.OpenReaderMem(p, base)
	} else {
		r, err = message.OpenReader(p, base)
	}
	if err != nil {
		return nil
	}
	return r
}

func compareReaders(what, p string, base int64, file []byte, v2 bool, rrecs []RRec, clean bool) {
	for _, mem := range []bool{false, true} {
		var r *message.Reader
		var err error
		if mem {
			r, err = message.OpenReaderMem(p, base)
		} else {
			r, err = message.OpenReader(p, base)
		}
		if err != nil {
			cfail("codec", "%s: open reader (mem=%v) on a file with a valid header failed: %v (len %d)", what, mem, err, len(file))
		}
		if (r.Version() == message.V2) != v2 {
			cfail("codec", "%s: reader detected version %v, file is v2=%v", what, r.Version(), v2)
		}
		pos := r.InitialPosition()
		i := 0
		for {
			msg, next, err := r.Read(pos)
			if err != nil {
				isEOF := errors.Is(err, io.EOF)
				if i != len(rrecs) {
					cfail("codec", "%s: reader (mem=%v, v2=%v) stopped after %d records (%v), the reference parser finds %d valid records", what, mem, v2, i, err, len(rrecs))
				}
				// A tail shorter than one record header reads as end of file at the reader level (Check and
				// Recover detect it by comparing the position with the file size: that is C07's business).
				shortTail := !clean && int64(len(file))-pos < 28
				if isEOF != clean && !(isEOF && shortTail) {
					cfail("codec", "%s: reader (mem=%v, v2=%v) ended with %v after %d records; reference parser says clean end=%v (file len %d)", what, mem, v2, err, i, clean, len(file))
				}
				if !isEOF && !errors.Is(err, message.ErrCorrupted) {
					cfail("codec", "%s: reader (mem=%v) ended with an unclassified error %v", what, mem, err)
				}
				break
			}
			if i >= len(rrecs) {
				cfail("codec", "%s: reader (mem=%v, v2=%v) returned record %d at %d, the reference parser finds only %d valid records", what, mem, v2, i, pos, len(rrecs))
			}
			rr := rrecs[i]
			if !rr.Msg().Eq(msg) || next != rr.End {
				cfail("codec", "%s: reader (mem=%v) record %d differs: got %+v next %d, reference %+v end %d", what, mem, i, FromMessage(msg), next, rr.Msg(), rr.End)
			}
			pos = next
			i++
		}
		_ = r.Close()
	}
}

func firstDiff(a, b []byte) int {
	for i := 0; i < len(a) && i < len(b); i++ {
		if a[i] != b[i] {
			return i
		}
	}
	if len(a) < len(b) {
		return len(a)
	}
	return len(b)
}

func codecNT(c *CodecCase) bool {
	if len(c.Msgs) >= 2 {
		return true
	}
	for _, m := range c.Msgs {
		if len(m.K) == 0 || len(m.V) == 0 || m.TS == 0 || m.TS == math.MaxInt64 || m.TS == math.MinInt64 || m.TS < 0 {
			return true
		}
	}
	return false
}

func runCase[C any](t *testing.T, prop, engine string, gen func(*rapid.T) *C, run func(*C, *Stats), nt func(*C) bool) {
	st := NewStats(prop)
	defer st.Write()
	var lastCase *C
	var lastViol *Violation
	defer func() {
		if t.Failed() && lastCase != nil {
			path := WriteReplay(prop, engine, lastViol, lastCase)
			fmt.Printf("%v\nVIOLATION property=%s replay=%s\n", lastViol, prop, path)
		}
	}()
	rapid.Check(t, func(rt *rapid.T) {
		c := gen(rt)
		if v := protect(func() { run(c, st) }); v != nil {
			lastCase, lastViol = c, v
			rt.Fatalf("%s", v.Error())
		}
		if nt == nil {
			return // the engine counts its own evaluations
		}
		st.Eval(1)
		if nt(c) {
			b := mustJSON(c)
			st.NonTrivial(b)
			if st.WantSample() && len(b) < 4000 {
				st.Sample(c)
			}
		}
	})
}

func TestC13Codec(t *testing.T) {
	dir := MkScratch("vf-codec-")
	defer os.RemoveAll(dir)
	runCase(t, "C13", "codec", genCodecCase, func(c *CodecCase, st *Stats) { runCodecCase(c, st, dir) }, codecNT)
}

// FuzzParseDifferential: arbitrary bytes after a valid header; real readers vs reference parser.
func FuzzParseDifferential(f *testing.F) {
	two := append(append([]byte{}, RefEncodeV2(0, 5, []byte("k"), []byte("v"))...), RefEncodeV2(1, 6, nil, nil)...)
	f.Add(true, two)
	f.Add(false, RefEncodeV1(0, 5, []byte("k"), []byte("v")))
	f.Add(true, make([]byte, 40))
	f.Add(false, make([]byte, 28))
	// hostile constants: maximal lengths, negative lengths, bound +-1
	for _, kl := range []uint32{0x7FFFFFFF, 0x80000000, 0xFFFFFFFF, 64 << 20, 64<<20 + 1, 64<<20 - 1} {
		h := make([]byte, 28)
		binary.BigEndian.PutUint32(h[20:], kl)
		f.Add(true, h)
		h2 := make([]byte, 28)
		binary.BigEndian.PutUint32(h2[24:], kl)
		f.Add(true, append(two, h2...))
		h3 := make([]byte, 28)
		binary.BigEndian.PutUint32(h3[16:], kl)
		f.Add(false, append(RefEncodeV1(0, 5, []byte("k"), []byte("v")), h3...))
	}
	dir := MkScratch("vf-fuzz-")
	f.Cleanup(func() { os.RemoveAll(dir) })
	f.Fuzz(func(t *testing.T, v2 bool, body []byte) {
		var file []byte
		if v2 {
			file = append(append(file, RefLogHeaderV2...), body...)
		} else {
			file = body
			if len(file) > 0 && len(file) < 8 {
				return
			}
			if len(file) >= 8 && binary.BigEndian.Uint64(file) != 0 {
				return
			}
		}
		p := filepath.Join(dir, fmt.Sprintf("f%d.log", os.Getpid()))
		if err := os.WriteFile(p, file, 0600); err != nil {
			t.Fatal(err)
		}
		var rrecs []RRec
		var clean bool
		if v2 {
			rrecs, _, clean = RefParseV2(file)
		} else {
			rrecs, _, clean = RefParseV1(file)
		}
		if v := protect(func() { compareReaders("fuzz", p, 0, file, v2, rrecs, clean) }); v != nil {
			t.Fatalf("%v", v)
		}
		// the same bytes with every frame's checksum recomputed (frames found by walking the length fields): gets the
		// search past the CRC so that the remaining validity conditions are compared as well
		fixed := fixupCRCs(v2, file)
		if fixed == nil {
			return
		}
		if err := os.WriteFile(p, fixed, 0600); err != nil {
			t.Fatal(err)
		}
		if v2 {
			rrecs, _, clean = RefParseV2(fixed)
		} else {
			rrecs, _, clean = RefParseV1(fixed)
		}
		if v := protect(func() { compareReaders("fuzz-crcfix", p, 0, fixed, v2, rrecs, clean) }); v != nil {
			t.Fatalf("%v", v)
		}
	})
}

// fixupCRCs walks the frames of a log file by their length fields and recomputes each checksum; nil if nothing changed.
func fixupCRCs(v2 bool, file []byte) []byte {
	out := append([]byte{}, file...)
	pos := 0
	if v2 {
		pos = 8
	}
	tab := crc32.MakeTable(crc32.Castagnoli)
	for len(out)-pos >= 28 {
		var kl, vl int64
		if v2 {
			kl, vl = int64(int32(binary.BigEndian.Uint32(out[pos+20:]))), int64(int32(binary.BigEndian.Uint32(out[pos+24:])))
		} else {
			kl, vl = int64(int32(binary.BigEndian.Uint32(out[pos+16:]))), int64(int32(binary.BigEndian.Uint32(out[pos+20:])))
		}
		if kl < 0 || vl < 0 || kl+vl > 1<<20 {
			break
		}
		total := 28 + int(kl+vl)
		if v2 {
			total += 8
		}
		if len(out)-pos < total {
			break
		}
		if v2 {
			binary.BigEndian.PutUint32(out[pos:], crc32.Checksum(out[pos+4:pos+total], tab))
		} else {
			binary.BigEndian.PutUint32(out[pos+24:], crc32.Checksum(out[pos+28:pos+total], tab))
		}
		pos += total
	}
	if bytes.Equal(out, file) {
		return nil
	}
	return out
}
