package vf

import (
	"encoding/hex"
	"encoding/json"
	"fmt"
	"hash/fnv"
	"math"
	"math/bits"
	"os"
	"path/filepath"
	"strings"

	"pgregory.net/rapid"
)

func hx(h string) []byte {
	b, err := hex.DecodeString(h)
	if err != nil {
		panic(err)
	}
	return b
}

// Real FNV-1a-64 collisions (found by a distinguished-point search during the design phase).
var collisionPairs = [][2][]byte{
	{hx("419d0408285f3dd39d"), hx("419b2b3de607aca03d")},
	{hx("42ea90bc10781b6813"), hx("425bf564d5623f2a0c")},
	{hx("43c4f40c40487d40a1"), hx("43c924599616b4acf0")},
}

// KeyUniverse is the key set histories publish with: nil, empty, prefix-related keys and colliding keys.
var KeyUniverse = [][]byte{nil, {}, []byte("a"), []byte("ab"), []byte("abc"), []byte("b"),
	collisionPairs[0][0], collisionPairs[0][1], collisionPairs[1][0], collisionPairs[2][0], zeroHashKey}

// zeroHashKey: the 64-bit FNV-1a hash of these eight bytes is exactly 0 - the zero value of every "current hash" variable.
var zeroHashKey = hx("d56bb95342870836")

// CollidingAbsent are never published but share a hash with a key that is.
var CollidingAbsent = [][]byte{collisionPairs[1][1], collisionPairs[2][1]}

// longKeys are published rarely: longer than a small buffer, than a page, and than 64 KiB (a 16-bit length would wrap).
var longKeys = [][]byte{append([]byte("L"), pattern(299, 7)...), append([]byte("ML"), pattern(4998, 8)...), append([]byte("XL"), pattern(69998, 9)...)}

var smallKeys = [][]byte{nil, []byte("a"), []byte("b"), collisionPairs[0][0], collisionPairs[0][1], zeroHashKey}

func init() {
	// self-check of the precomputed collisions against hash/fnv and the hand-written reference
	if RefFNV1a64(zeroHashKey) != 0 {
		panic("zero-hash key is wrong")
	}
	for _, p := range collisionPairs {
		a, b := fnv.New64a(), fnv.New64a()
		a.Write(p[0])
		b.Write(p[1])
		if a.Sum64() != b.Sum64() || string(p[0]) == string(p[1]) || RefFNV1a64(p[0]) != a.Sum64() {
			panic("collision table is wrong")
		}
	}
}

const hourUS = int64(3600) * 1000000

func genConfig(t *rapid.T, p *Profile) HConfig {
	c := HConfig{}
	c.KeyIndex = p.ForceKeys || uni(t, 4, "keyindex") > 0
	c.TimeIndex = p.ForceTimes || uni(t, 4, "timeindex") > 0
	c.MonoTimes = p.ForceMono || uni(t, 3, "mono") > 0
	switch uni(t, 5, "single") {
	case 3:
		c.Single = 1
	case 4:
		c.Single = 2
	}
	if p.ForceSingle && c.Single == 0 {
		c.Single = 2
	}
	if p.ForceMixed {
		c.Single = 0
	}
	c.CheckEvery = pick(t, []int{1, 1, 1, 2, 3, 6}, "check_every")
	c.DirStyle = pick(t, []int{0, 0, 0, 0, 1, 2, 3, 4, 5, 6, 7, 8}, "dir_style")
	c.WallClock = !p.RelTime && c.MonoTimes && uni(t, 6, "wall_clock") == 5
	c.SubMicro = uni(t, 5, "sub_micro") == 4
	c.LongKeys = uni(t, 5, "long_keys") == 4
	c.SmallKeys = p.SmallKeys
	c.RelTime = p.RelTime
	return c
}

var rolloverClasses = []string{"tiny", "eight", "one", "few", "ten", "big"}

func genOpts(t *rapid.T, e *Env, cfg HConfig, mono bool, p *Profile) OpenOpts {
	o := OpenOpts{}
	cls := pick(t, rolloverClasses, "rollover_class")
	if p.TinyRollBias && rapid.Bool().Draw(t, "small_bias") {
		cls = pick(t, []string{"one", "few", "few"}, "rollover_class2")
	}
	switch cls {
	case "tiny":
		o.Rollover = int64(rapid.IntRange(1, 7).Draw(t, "rollover"))
	case "eight":
		o.Rollover = 8
	case "one":
		o.Rollover = int64(rapid.IntRange(40, 90).Draw(t, "rollover"))
	case "few":
		o.Rollover = int64(rapid.IntRange(110, 260).Draw(t, "rollover"))
	case "ten":
		o.Rollover = int64(rapid.IntRange(500, 900).Draw(t, "rollover"))
	default:
		o.Rollover = 1 << 20
	}
	if e != nil && e.Dir != "" && uni(t, 10, "exact_rollover") == 9 {
		// the boundary itself: Rollover equal to the current size of the head's log file, or one byte off
		if names, _ := listLogs(e.Dir); len(names) > 0 {
			if fi, err := os.Stat(filepath.Join(e.Dir, names[len(names)-1])); err == nil && fi.Size() > 8 {
				o.Rollover = fi.Size() + int64(pick(t, []int{-1, 0, 0, 1}, "exact_delta"))
				e.St.Inc("reopen_with_rollover_at_head_size")
			}
		}
	}
	switch cfg.Single {
	case 1:
		o.V1 = true
	case 2:
		o.V1 = false
	default:
		o.V1 = rapid.Bool().Draw(t, "v1")
		if p.ForceMixed && e != nil && uni(t, 3, "flip_version") > 0 {
			o.V1 = !e.Opts.V1 // the other version than the one in force: new segments differ from the old ones
		}
		o.Keep = rapid.Bool().Draw(t, "keep")
		o.Eager = uni(t, 4, "eager") == 3
	}
	if !cfg.TimeIndex || mono {
		switch uni(t, 6, "integrity") {
		case 1:
			o.Check = true
		case 2:
			o.Recover = true
		case 3:
			o.Check, o.Recover = true, true
		}
	}
	o.AutoSync = uni(t, 8, "autosync") == 7
	return o
}

func pattern(n int, seed byte) []byte {
	b := make([]byte, n)
	for i := range b {
		b[i] = seed + byte(i)*7
	}
	return b
}

func (e *Env) genMsg(t *rapid.T, lastTS *int64) MsgIn {
	keys := KeyUniverse
	if e.Cfg.SmallKeys {
		keys = smallKeys
	}
	in := MsgIn{}
	if k := pick(t, keys, "key"); k != nil {
		in.K = HexBytes(append([]byte{}, k...))
	}
	if e.Cfg.LongKeys && uni(t, 12, "long_key") == 11 {
		in.K = HexBytes(append([]byte{}, pick(t, longKeys, "which")...))
		e.St.Inc("messages_with_long_key")
	}
	switch vk := uni(t, 40, "valkind"); {
	case vk < 8:
		in.V = nil
	case vk < 10:
		in.V = HexBytes{}
	case vk == 10:
		in.V = pattern(rapid.IntRange(200, 400).Draw(t, "vlen"), byte(vk))
	case vk == 11 && !e.Cfg.SmallKeys:
		in.V = pattern(rapid.IntRange(2000, 5000).Draw(t, "vlen"), byte(vk))
	case vk == 12 && !e.Cfg.SmallKeys && uni(t, 3, "huge") == 2:
		in.V = pattern(pick(t, []int{4096 - 28, 65536 - 40, 65536, 70001}, "vlen"), byte(vk))
		e.St.Inc("messages_with_value_around_64KiB")
	default:
		in.V = pattern(rapid.IntRange(1, 40).Draw(t, "vlen"), byte(rapid.IntRange(0, 255).Draw(t, "vseed")))
	}
	in.Bogus = int64(rapid.IntRange(-3, 100).Draw(t, "bogus_offset"))
	switch {
	case e.Cfg.RelTime:
		// hour grid relative to the start of the run: T0 - (k + 1/4) h
		var k int64
		if e.Cfg.MonoTimes {
			k = -(*lastTS+hourUS/4)/hourUS - int64(rapid.SampledFrom([]int{0, 0, 1, 1, 2}).Draw(t, "dk"))
			if k < 0 {
				k = 0
			}
		} else {
			k = int64(uni(t, 71, "k"))
		}
		in.TS = -(k*hourUS + hourUS/4)
	case e.Cfg.WallClock:
		in.ZeroTime = true
	case e.Cfg.MonoTimes:
		in.TS = *lastTS + int64(rapid.SampledFrom([]int{0, 0, 0, 1, 2}).Draw(t, "dt"))
		if uni(t, 50, "far_future") == 49 {
			// "any microsecond time": a jump far ahead (beyond what fits in int64 nanoseconds, year 2262), still monotone
			if far := pick(t, []int64{1 << 40, 10000000000000000, 250000000000000000, 1 << 62}, "far_ts"); far > in.TS {
				in.TS = far
				e.St.Inc("messages_with_far_future_time")
			}
		}
	default:
		switch tk := uni(t, 30, "timekind"); {
		case tk == 0 && !e.P.NoZeroTime:
			in.ZeroTime = true
		case tk == 1:
			// also with a time index: the time VIEW of a log that holds a message from before 1970 is not judged
			// (finding F1), but everything else is - the index files must still be what every code path derives
			in.TS = rapid.SampledFrom([]int64{-5, 0, 1 << 40, -(1 << 40), 10000000000000000, 1 << 62}).Draw(t, "ts_extreme")
		default:
			in.TS = int64(1 + uni(t, 50, "ts"))
		}
	}
	*lastTS = in.TS
	return in
}

func (e *Env) genLastTS() int64 {
	if e.Cfg.RelTime {
		if !e.M.Any {
			return -(70*hourUS + hourUS/4)
		}
		return e.M.MaxT - e.T0
	}
	if !e.M.Any {
		return 10
	}
	return e.M.MaxT
}

// uni draws an (almost) uniform integer in [0,n) from fair coin flips. rapid's integer generators
// are deliberately biased towards small values and range ends, which distorts weighted choices.
func uni(t *rapid.T, n int, label string) int {
	if n <= 1 {
		return 0
	}
	nb := bits.Len(uint(n-1)) + 4
	x := 0
	for _, b := range rapid.SliceOfN(rapid.Bool(), nb, nb).Draw(t, label) {
		x <<= 1
		if b {
			x |= 1
		}
	}
	return x % n
}

func pick[T any](t *rapid.T, xs []T, label string) T { return xs[uni(t, len(xs), label)] }

var kindOrder = []string{"publish", "delete", "reopen", "trim", "compact", "gc", "sync", "migrate", "pkg", "backup", "ro", "probe"}

func drawWeighted(t *rapid.T, w map[string]int, label string) string {
	total := 0
	for _, k := range kindOrder {
		total += w[k]
	}
	x := uni(t, total, label)
	for _, k := range kindOrder {
		if x < w[k] {
			return k
		}
		x -= w[k]
	}
	return "publish"
}

func (e *Env) genRmIdx(t *rapid.T) []string {
	names, _ := listLogs(e.Dir)
	var idx []string
	for _, n := range names {
		idx = append(idx, strings.TrimSuffix(n, ".log")+".index")
	}
	switch uni(t, 10, "rmidx_kind") {
	case 0, 1:
		return idx
	case 2, 3, 4:
		var out []string
		for _, n := range idx {
			if rapid.Bool().Draw(t, "rm") {
				out = append(out, n)
			}
		}
		return out
	}
	return nil
}

// genFailAt: one Multi call in eight runs with a back-off that fails at its first, second or third call.
func genFailAt(t *rapid.T, variant int) int {
	if variant == 0 || uni(t, 8, "interrupt") != 7 {
		return 0
	}
	return 1 + uni(t, 4, "fail_at")
}

func (e *Env) genVariant(t *rapid.T) int {
	return pick(t, []int{0, 0, 0, 1, 1, 1, 2}, "variant")
}

func (e *Env) genDeleteOffsets(t *rapid.T) []int64 {
	m := e.M
	shapes := []string{"newest", "newest", "all", "oldest", "live", "live", "live", "deleted", "unassigned", "mixed", "mixed", "head", "segment", "edge", "relative", "empty"}
	if e.P.Name == "C02" {
		shapes = append(shapes, "newest", "newest", "newest", "all", "all", "head")
	}
	set := map[int64]struct{}{}
	shape := pick(t, shapes, "delete_shape")
	e.St.Inc("delete_shape." + shape)
	switch shape {
	case "newest":
		n := rapid.IntRange(1, 3).Draw(t, "n")
		for i := 0; i < n && i < len(m.Live); i++ {
			set[m.Live[len(m.Live)-1-i].Off] = struct{}{}
		}
		if len(m.Live) == 0 {
			set[m.Next] = struct{}{}
		}
	case "all":
		for _, x := range m.Live {
			set[x.Off] = struct{}{}
		}
		if len(m.Live) == 0 {
			set[0] = struct{}{}
		}
	case "oldest":
		n := rapid.IntRange(1, 4).Draw(t, "n")
		for i := 0; i < n && i < len(m.Live); i++ {
			set[m.Live[i].Off] = struct{}{}
		}
		if len(m.Live) == 0 {
			set[0] = struct{}{}
		}
	case "live":
		if len(m.Live) == 0 {
			set[m.Next+1] = struct{}{}
			break
		}
		n := 1 + uni(t, 5, "n_live")
		for i := 0; i < n; i++ {
			set[m.Live[uni(t, len(m.Live), "live_idx")].Off] = struct{}{}
		}
	case "deleted":
		nd := 1 + uni(t, 4, "n_dead")
		for i := 0; i < nd; i++ {
			o := int64(uni(t, int(m.Next)+1, "off"))
			if _, live := m.Find(o); !live {
				set[o] = struct{}{}
			}
		}
		if len(set) == 0 {
			set[m.Next+2] = struct{}{}
		}
	case "unassigned":
		for _, d := range rapid.SliceOfN(rapid.Int64Range(0, 3), 1, 3).Draw(t, "beyond") {
			set[m.Next+d] = struct{}{}
		}
		if uni(t, 3, "far") == 2 {
			set[pick(t, []int64{m.Next + 1000, 1 << 31, 1 << 40, math.MaxInt64 - 1, math.MaxInt64}, "far_off")] = struct{}{}
		}
	case "mixed":
		nm := 1 + uni(t, 6, "n_mixed")
		for i := 0; i < nm; i++ {
			set[int64(uni(t, int(m.Next)+2, "off"))] = struct{}{}
		}
		if uni(t, 4, "far") == 3 {
			set[pick(t, []int64{m.Next + 1000, 1 << 31, 1 << 40, math.MaxInt64 - 1, math.MaxInt64}, "far_off")] = struct{}{}
		}
	case "head", "segment", "edge":
		segs, _ := ReadSegs(e.Dir)
		var nonEmpty []SegInfo
		for _, s := range segs {
			if len(s.Recs) > 0 {
				nonEmpty = append(nonEmpty, s)
			}
		}
		if len(nonEmpty) == 0 {
			set[m.Next] = struct{}{}
			break
		}
		sg := nonEmpty[len(nonEmpty)-1]
		if shape != "head" {
			sg = nonEmpty[uni(t, len(nonEmpty), "seg")]
		}
		if shape == "edge" {
			if rapid.Bool().Draw(t, "first") {
				set[sg.Recs[0].Off] = struct{}{}
			} else {
				set[sg.Recs[len(sg.Recs)-1].Off] = struct{}{}
			}
		} else {
			for _, r := range sg.Recs {
				set[r.Off] = struct{}{}
			}
		}
	case "relative":
		set[rapid.SampledFrom([]int64{-1, -2, -3}).Draw(t, "rel")] = struct{}{}
		if len(m.Live) > 0 && rapid.Bool().Draw(t, "plus_live") {
			set[m.Live[uni(t, len(m.Live), "ix")].Off] = struct{}{}
		}
	case "empty":
	}
	return sortedOffsets(set)
}

func (e *Env) genTimeBound(t *rapid.T) int64 {
	m := e.M
	if e.Cfg.RelTime {
		// cut-offs sit half-way between the hour grid the messages use
		return -(int64(uni(t, 73, "j"))*hourUS + hourUS/2)
	}
	var cands []int64
	for _, x := range m.Live {
		cands = append(cands, x.TS-1, x.TS, x.TS+1)
	}
	if m.Any {
		cands = append(cands, m.MinT-2, m.MaxT+2)
	} else {
		cands = append(cands, 5)
	}
	v := pick(t, cands, "time_bound")
	if e.T0 != 0 {
		v -= e.T0
	}
	return v
}

// GenOp draws the next operation from the profile's weight table, with arguments taken from the model state.
func (e *Env) GenOp(t *rapid.T) Op {
	m := e.M
	w := e.P.Weights
	kind := drawWeighted(t, w, "op_kind")
	switch kind {
	case "publish":
		n := pick(t, []int{0, 1, 1, 1, 2, 2, 3, 3, 4, 5, 6}, "batch")
		if uni(t, 25, "big_batch") == 0 {
			// crosses the 32-message batches the trim/compaction helpers read in, also inside one segment
			n = 20 + uni(t, 30, "big_n")
		}
		op := Op{Kind: "publish", Msgs: make([]MsgIn, n)}
		last := e.genLastTS()
		for i := range op.Msgs {
			op.Msgs[i] = e.genMsg(t, &last)
		}
		if n > 0 && n <= 6 && uni(t, 30, "oversize") == 29 {
			op.Oversize = 1 + uni(t, n, "oversize_at")
			op.Split = rapid.Bool().Draw(t, "split")
		}
		return op
	case "delete":
		op := Op{Kind: "delete", Offsets: e.genDeleteOffsets(t), Variant: e.genVariant(t)}
		op.FailAt = genFailAt(t, op.Variant)
		return op
	case "reopen":
		o := genOpts(t, e, e.Cfg, m.Mono, e.P)
		op := Op{Kind: "reopen", Opts: &o, RmIdx: e.genRmIdx(t)}
		op.CutIdx = len(op.RmIdx) > 0 && uni(t, 5, "cutidx") == 4 && !o.Check
		if uni(t, 8, "cold") == 7 {
			removed := map[string]bool{}
			for _, n := range op.RmIdx {
				removed[n] = true
			}
			names, _ := listLogs(e.Dir)
			for _, n := range names {
				for _, f := range []string{n, strings.TrimSuffix(n, ".log") + ".index"} {
					if !removed[f] && rapid.Bool().Draw(t, "link") {
						op.Cold = append(op.Cold, f)
					}
				}
			}
		}
		return op
	case "gc":
		return Op{Kind: "gc", N: int64(pick(t, []int{0, 0, 1000, -1, -200}, "gc_hours"))}
	case "sync":
		return Op{Kind: "sync"}
	case "probe":
		return Op{Kind: "probe", N: int64(uni(t, 4096, "probe_at")), Variant: uni(t, 3, "probe_call")}
	case "trim":
		subs := []string{"offset", "count", "age"}
		if e.Cfg.Single != 0 {
			subs = append(subs, "size", "size")
		}
		op := Op{Kind: "trim", Sub: pick(t, subs, "trim_by"), Variant: pick(t, []int{0, 1, 1, 1, 2}, "variant")}
		switch op.Sub {
		case "offset":
			op.N = int64(uni(t, int(m.Next)+5, "before")) - 2
		case "count":
			op.N = int64(uni(t, len(m.Live)+3, "max"))
		case "size":
			op.N = int64(uni(t, int(dirDataSize(e.Dir))+41, "size"))
		case "age":
			op.N = e.genTimeBound(t)
		}
		op.FailAt = genFailAt(t, op.Variant)
		if op.Sub == "age" && e.Cfg.SubMicro {
			op.Nanos = pick(t, []int{0, 1, 300, 499, 500, 501, 700, 999}, "nanos")
		}
		if op.Sub != "age" && uni(t, 10, "far_bound") == 9 {
			// bounds far above the live range, up to the largest value of the argument's type
			op.N = pick(t, []int64{m.Next + 1000, 1 << 31, 1<<31 + 1, 1 << 40, math.MaxInt64 - 1, math.MaxInt64}, "far")
		}
		return op
	case "compact":
		subs := []string{"updates", "updates", "deletes", "deletes"}
		if e.Cfg.RelTime {
			subs = append(subs, "compact")
		}
		op := Op{Kind: "compact", Sub: pick(t, subs, "compact_kind"), Variant: pick(t, []int{0, 1, 1, 1, 2}, "variant")}
		if op.Sub == "compact" {
			op.Variant = 0
			op.N = int64(uni(t, 41, "age_j"))*hourUS + hourUS/2
		} else {
			op.N = e.genTimeBound(t)
			op.FailAt = genFailAt(t, op.Variant)
			if e.Cfg.SubMicro {
				op.Nanos = pick(t, []int{0, 1, 300, 499, 500, 501, 700, 999}, "nanos")
			}
		}
		return op
	case "migrate":
		tov1 := e.Cfg.Single == 1
		if e.Cfg.Single == 0 {
			tov1 = rapid.Bool().Draw(t, "to_v1")
		}
		return Op{Kind: "migrate", ToV1: tov1}
	case "pkg":
		return Op{Kind: "pkg", Sub: pick(t, []string{"recover", "check", "stat"}, "pkg_op")}
	case "backup":
		op := Op{Kind: "backup", Variant: pick(t, []int{0, 0, 1, 2}, "pkg_level"), Fresh: uni(t, 4, "fresh") == 3}
		op.Wipe = e.bkLast != "" && op.Variant != 2 && uni(t, 5, "wipe") == 4
		if op.Variant == 2 {
			op.RmIdx = e.genRmIdx(t)
		}
		return op
	case "ro":
		op := Op{Kind: "ro", Handles: pick(t, []int{1, 1, 2, 3}, "handles"), RmIdx: e.genRmIdx(t)}
		op.CutIdx = len(op.RmIdx) > 0 && uni(t, 5, "cutidx") == 4
		return op
	}
	panic("unknown kind " + kind)
}

func (e *Env) Case() *HCase {
	return &HCase{Profile: e.P.Name, Cfg: e.Cfg, Open: e.startOpts, Ops: e.Trace}
}

// Finish records the case in the statistics and classifies it by the property's non-trivial rule.
func (e *Env) Finish() {
	e.recheckBackups("")
	e.St.Eval(1)
	switch {
	case e.liveMax > 64:
		e.St.Inc("size.max_live>64")
	case e.liveMax > 32:
		e.St.Inc("size.max_live_33..64")
	case e.liveMax > 8:
		e.St.Inc("size.max_live_9..32")
	default:
		e.St.Inc("size.max_live<=8")
	}
	switch {
	case e.segsMax > 8:
		e.St.Inc("size.max_segments>8")
	case e.segsMax > 2:
		e.St.Inc("size.max_segments_3..8")
	default:
		e.St.Inc("size.max_segments<=2")
	}
	for f := range e.flags {
		e.St.Inc("cases_with." + f)
	}
	f := e.flags
	nt := false
	switch e.P.Name {
	case "C01":
		nt = f["multiseg"] && (f["deleted"] || f["reopen"])
	case "C02":
		nt = f["taildel-reopen-publish"]
	case "C03":
		nt = f["sweep-holes"] && f["multiseg"]
	case "C04":
		nt = f["get-deleted"] && f["multiseg"]
	case "C09":
		nt = f["key-collision-live"]
	case "C10":
		nt = e.Cfg.TimeIndex && ((f["time-equal-run"] && f["multiseg"]) || f["taildel"])
	case "C11":
		nt = f["rm-nonhead-index"] || (f["multiseg"] && (f["deleted"] || f["migrate"]) && f["reopen"])
	case "C12":
		n := 0
		for k := range f {
			if strings.HasPrefix(k, "del.") {
				n++
			}
		}
		nt = n >= 2 || (n >= 1 && f["reopen"])
	case "C13":
		nt = f["multiseg"] && f["deleted"]
	case "C15":
		nt = f["trimmed"] && f["multiseg"]
	case "C16":
		nt = f["compacted"] && (f["compact-with-tombstone"] || f["multiseg"])
	case "C17":
		nt = f["mixed"] && (f["deleted"] || f["migrate"] || f["mixed-then-migrate"])
	case "C19":
		nt = f["ro2"] || (f["ro"] && f["multiseg"])
	case "C20":
		nt = f["backup-repeat-rollover"] || f["backup-after-structural"]
	}
	if nt {
		b, _ := json.Marshal(e.Case())
		e.St.NonTrivial(b)
		e.St.Inc("nontrivial_cases")
		if e.St.WantSample() && len(e.Trace) <= 25 {
			e.St.Sample(e.Case())
		}
	}
}

func (c *HCase) String() string {
	var sb strings.Builder
	fmt.Fprintf(&sb, "config %+v open %+v\n", c.Cfg, c.Open)
	for i, op := range c.Ops {
		b, _ := json.Marshal(op)
		fmt.Fprintf(&sb, "  %2d %s\n", i+1, b)
	}
	return sb.String()
}
