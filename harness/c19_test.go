package vf

// C19 (lock matrix part): up to three handles on one directory, both modes, opens that must fail.
// Oracle: a read-write open succeeds iff no handle is open; a read-only open succeeds iff no
// read-write handle is open; Close and a failed Open release the lock.

import (
	"bytes"
	"errors"
	"fmt"
	"os"
	"path/filepath"
	"runtime"
	"strings"
	"syscall"
	"testing"
	"time"

	"github.com/klev-dev/klevdb"
	"pgregory.net/rapid"
)

type HOp struct {
	Kind string `json:"op"` // open-rw, open-ro, close, publish, fail-flags, fail-corrupt, fail-missing, fail-listing, ro-queries
	Slot int    `json:"slot"`
	RO   bool   `json:"ro,omitempty"`
	N    int    `json:"n,omitempty"`
	RmIx bool   `json:"rm_index,omitempty"`
}

type HandlesCase struct {
	Keys     bool  `json:"keys"`
	Times    bool  `json:"times"`
	Rollover int64 `json:"rollover"`
	Ops      []HOp `json:"ops"`
}

type hEnv struct {
	c     *HandlesCase
	dir   string
	slots [3]klevdb.Log
	mode  [3]int // 0 closed, 1 RW, 2 RO
	m     *Model
	st    *Stats
	step  int
	flags map[string]bool
	ts    int64
}

func (h *hEnv) opts(ro bool) klevdb.Options {
	return klevdb.Options{KeyIndex: h.c.Keys, TimeIndex: h.c.Times, Rollover: h.c.Rollover, Readonly: ro}
}

func (h *hEnv) counts() (rw, ro int) {
	for _, m := range h.mode {
		switch m {
		case 1:
			rw++
		case 2:
			ro++
		}
	}
	return
}

func (h *hEnv) fail(format string, args ...any) {
	panic(&Violation{Oracle: "lock", Msg: fmt.Sprintf("step %d: ", h.step) + fmt.Sprintf(format, args...)})
}

func (h *hEnv) headIndex() string {
	names, _ := listLogs(h.dir)
	if len(names) == 0 {
		return ""
	}
	return filepath.Join(h.dir, strings.TrimSuffix(names[len(names)-1], ".log")+".index")
}

func (h *hEnv) apply(op HOp) {
	h.step++
	h.st.Inc("op." + op.Kind)
	rw, ro := h.counts()
	switch op.Kind {
	case "open-rw", "open-ro":
		if h.mode[op.Slot] != 0 {
			return
		}
		isRO := op.Kind == "open-ro"
		if op.RmIx && rw == 0 && ro == 0 {
			// logs with and without index files
			if es, _ := filepath.Glob(filepath.Join(h.dir, "*.index")); len(es) > 0 {
				_ = os.Remove(es[op.N%len(es)])
				h.flags["rmidx"] = true
			}
		}
		l, err := klevdb.Open(h.dir, h.opts(isRO))
		wantOK := rw == 0 && (isRO || ro == 0)
		if wantOK && err != nil {
			h.fail("%s with %d read-write and %d read-only handles open failed: %v", op.Kind, rw, ro, err)
		}
		if !wantOK && err == nil {
			_ = l.Close()
			h.fail("%s succeeded while %d read-write and %d read-only handles are open", op.Kind, rw, ro)
		}
		if err == nil {
			h.slots[op.Slot] = l
			h.mode[op.Slot] = 1
			if isRO {
				h.mode[op.Slot] = 2
				if ro >= 1 {
					h.flags["ro2"] = true
				}
			}
			if h.flags["failed-open"] {
				h.flags["failed-then-ok"] = true
			}
			next, nerr := l.NextOffset()
			if nerr != nil || next != h.m.Next {
				h.fail("NextOffset on a fresh %s handle is %d,%v want %d", op.Kind, next, nerr, h.m.Next)
			}
		} else {
			h.st.Inc("open_refused_by_lock")
		}
	case "close":
		if h.mode[op.Slot] == 0 {
			return
		}
		if err := h.slots[op.Slot].Close(); err != nil {
			h.fail("Close failed: %v", err)
		}
		h.slots[op.Slot], h.mode[op.Slot] = nil, 0
	case "publish":
		for i, m := range h.mode {
			if m == 1 {
				var msgs []klevdb.Message
				for j := 0; j < 1+op.N%3; j++ {
					h.ts++
					msgs = append(msgs, klevdb.Message{Time: time.UnixMicro(h.ts), Key: KeyUniverse[(op.N+j)%len(KeyUniverse)], Value: pattern(5+op.N%40, byte(op.N))})
				}
				n, err := h.slots[i].Publish(msgs)
				if err != nil || n != h.m.Next+int64(len(msgs)) {
					h.fail("Publish returned %d,%v", n, err)
				}
				for _, x := range msgs {
					h.m.Append(FromMessage(x))
				}
			}
		}
	case "ro-queries":
		for i, m := range h.mode {
			if m != 2 {
				continue
			}
			r := h.slots[i]
			logs := map[string][]byte{}
			for n, b := range snapshotDir(h.dir) {
				if strings.HasSuffix(n, ".log") {
					logs[n] = b
				}
			}
			e := &Env{P: &Profile{Name: "C19", Own: own("ro")}, Cfg: HConfig{KeyIndex: h.c.Keys, TimeIndex: h.c.Times}, Dir: h.dir, M: h.m, St: h.st, flags: map[string]bool{}, Step: h.step}
			e.observe(r, h.dir, "ro", fmt.Sprintf("read-only handle in slot %d", i))
			if _, err := r.Publish([]klevdb.Message{{Key: []byte("x")}}); !errors.Is(err, klevdb.ErrReadonly) {
				h.fail("Publish on a read-only handle returned %v", err)
			}
			if _, _, err := r.Delete(map[int64]struct{}{0: {}}); !errors.Is(err, klevdb.ErrReadonly) {
				h.fail("Delete on a read-only handle returned %v", err)
			}
			// the other calls a read-only handle accepts; the degenerate one is a Backup whose target is the directory
			// the handle has open, under any spelling (whatever it returns, no log file may change)
			parent := filepath.Dir(h.dir)
			var berr error
			switch (h.step + i) % 5 {
			case 0:
				berr = r.Backup(h.dir)
			case 1:
				berr = r.Backup(h.dir + "/.")
			case 2:
				link := filepath.Join(parent, "link-to-log")
				_ = os.Symlink(h.dir, link)
				berr = r.Backup(link)
			case 3:
				other := filepath.Join(parent, fmt.Sprintf("ro-backup-%d", h.step))
				_ = os.MkdirAll(other, 0700)
				if berr = r.Backup(other); berr != nil {
					h.fail("Backup through a read-only handle failed: %v", berr)
				}
			case 4:
				berr = r.Backup(filepath.Join(parent, "x", "..", filepath.Base(h.dir)))
			}
			_ = berr
			h.st.Inc("ro_backup_calls")
			_ = r.GC(0)
			_, _ = r.Sync()
			for n, b := range snapshotDir(h.dir) {
				if strings.HasSuffix(n, ".log") && string(logs[n]) != string(b) {
					h.fail("log file %s changed (len %d -> %d) while only read-only handles were used (queries, rejected Publish/Delete, Backup variant %d, GC, Sync)", n, len(logs[n]), len(b), (h.step+i)%5)
				}
				delete(logs, n)
			}
			for n := range logs {
				h.fail("log file %s disappeared while only read-only handles were used", n)
			}
			h.flags["ro-observed"] = true
		}
	case "fail-flags":
		// index flags flipped: the header of a V2 index file does not match -> open must fail
		hi := h.headIndex()
		if hi == "" {
			return
		}
		if b, err := os.ReadFile(hi); err != nil || !IsV2Index(b) {
			return
		}
		o := h.opts(op.RO)
		if op.N%2 == 0 {
			o.KeyIndex = !o.KeyIndex
		} else {
			o.TimeIndex = !o.TimeIndex
		}
		o.Check = true
		l, err := klevdb.Open(h.dir, o)
		if err == nil {
			_ = l.Close()
			h.fail("Open with flipped index options succeeded (readonly=%v, %d rw / %d ro open)", op.RO, rw, ro)
		}
		h.flags["failed-open"] = true
		h.st.Inc("failed_opens")
	case "fail-corrupt":
		if rw != 0 || ro != 0 {
			return
		}
		hi := h.headIndex()
		if hi == "" {
			return
		}
		orig, err := os.ReadFile(hi)
		if err != nil || len(orig) < 9 {
			return
		}
		bad := append([]byte{}, orig...)
		bad = append(bad, 0x01) // unaligned: corrupt index
		_ = os.WriteFile(hi, bad, 0600)
		o := h.opts(op.RO)
		o.Check = true
		l, err := klevdb.Open(h.dir, o)
		_ = os.WriteFile(hi, orig, 0600)
		if err == nil {
			_ = l.Close()
			h.fail("Open(Check) on a corrupted index succeeded")
		}
		h.flags["failed-open"] = true
		h.st.Inc("failed_opens")
	case "ro-damaged":
		// a read-only open of a damaged head, with any mix of Check/Recover: it may fail or succeed, but it
		// must not change any log file (only the shared lock is held) and must leave the lock matrix as it was
		if rw != 0 || ro != 0 {
			return
		}
		names, _ := listLogs(h.dir)
		if len(names) == 0 {
			return
		}
		head := filepath.Join(h.dir, names[len(names)-1])
		hi := h.headIndex()
		origLog, _ := os.ReadFile(head)
		origIdx, idxErr := os.ReadFile(hi)
		switch op.N % 3 {
		case 0:
			_ = os.WriteFile(head, append(append([]byte{}, origLog...), pattern(3+op.N%40, byte(op.N))...), 0600)
		case 1:
			if len(origLog) > 12 {
				_ = os.WriteFile(head, origLog[:len(origLog)-1-op.N%4], 0600)
			}
		case 2:
			if idxErr == nil && len(origIdx) > 8 {
				bad := append([]byte{}, origIdx...)
				bad[len(bad)-1] ^= 0x5A
				_ = os.WriteFile(hi, bad, 0600)
			}
		}
		before := map[string][]byte{}
		for n, b := range snapshotDir(h.dir) {
			if strings.HasSuffix(n, ".log") {
				before[n] = b
			}
		}
		o := h.opts(true)
		o.Check, o.Recover = op.RO, op.RmIx || !op.RO
		l, err := klevdb.Open(h.dir, o)
		if err == nil {
			_, _, _ = l.Consume(klevdb.OffsetOldest, 10)
			_ = l.Close()
		} else {
			h.flags["failed-open"] = true
			h.st.Inc("failed_opens")
		}
		for n, b := range snapshotDir(h.dir) {
			if strings.HasSuffix(n, ".log") {
				if old, ok := before[n]; !ok || string(old) != string(b) {
					h.fail("a read-only Open (Check=%v Recover=%v, result %v) changed log file %s (len %d -> %d)", o.Check, o.Recover, err, n, len(before[n]), len(b))
				}
				delete(before, n)
			}
		}
		for n := range before {
			h.fail("a read-only Open (Check=%v Recover=%v) removed log file %s", o.Check, o.Recover, n)
		}
		_ = os.WriteFile(head, origLog, 0600)
		if idxErr == nil {
			_ = os.WriteFile(hi, origIdx, 0600)
		} else {
			_ = os.Remove(hi)
		}
		h.st.Inc("ro_opens_of_damaged_head")
	case "damaged-read-close":
		// reads that fail on a damaged segment must not cost the lock: after Close - whatever the reads and Close itself
		// returned - the directory can be opened read-write again ("the lock is released by Close and by a failed Open")
		if rw != 0 || ro != 0 {
			return
		}
		names, _ := listLogs(h.dir)
		if len(names) == 0 {
			return
		}
		victim := filepath.Join(h.dir, names[(op.N/3)%len(names)])
		orig, _ := os.ReadFile(victim)
		if len(orig) < 9 {
			return
		}
		bad := append([]byte{}, orig...)
		switch op.N % 3 {
		case 0:
			bad[0] ^= 0xFF // not a log file header any more
		case 1:
			bad = bad[:4] // shorter than a file header
		case 2:
			bad[8+(len(bad)-8)/2] ^= 0x40 // a record in the middle
		}
		_ = os.WriteFile(victim, bad, 0600)
		l, err := klevdb.Open(h.dir, h.opts(op.RO))
		var cerr error
		if err == nil {
			_, _, _ = l.Consume(klevdb.OffsetOldest, 100)
			for o := int64(0); o < h.m.Next; o++ {
				_, _ = l.Get(o)
			}
			_, _ = l.GetByKey(KeyUniverse[op.N%len(KeyUniverse)])
			_, _ = l.Stat()
			_ = l.GC(0)
			_, _, _ = l.Consume(klevdb.OffsetOldest, 100)
			if op.RmIx || op.N%2 == 0 {
				// the failure was transient: the file is readable again before the handle is closed
				_ = os.WriteFile(victim, orig, 0600)
				_, _, _ = l.Consume(klevdb.OffsetOldest, 100)
				for o := int64(0); o < h.m.Next; o++ {
					_, _ = l.Get(o)
				}
				h.st.Inc("handles_with_reads_that_failed_and_later_succeeded")
			}
			cerr = l.Close()
		} else {
			h.flags["failed-open"] = true
			h.st.Inc("failed_opens")
		}
		_ = os.WriteFile(victim, orig, 0600)
		l2, err2 := klevdb.Open(h.dir, h.opts(false))
		if err2 != nil {
			h.fail("a handle (read-only=%v, Open result %v) read a damaged segment and was closed (Close result %v); afterwards a read-write Open of the repaired directory fails: %v", op.RO, err, cerr, err2)
		}
		_ = l2.Close()
		h.st.Inc("handles_closed_after_failed_reads")
	case "open-while-closing":
		// an Open that starts while the writer still has the directory and gets the lock only after the writer's last
		// publish and Close: whatever Open looked at before it owned the lock is out of date by then. The second Open is
		// parked inside its lock acquisition by making the lock file a FIFO (opening it blocks until somebody opens
		// the other end), no hook involved.
		if rw != 1 || ro != 0 || op.N%2 == 1 {
			return
		}
		var a klevdb.Log
		slot := -1
		for i, m := range h.mode {
			if m == 1 {
				a, slot = h.slots[i], i
			}
		}
		lockPath := filepath.Join(h.dir, ".lock")
		if fi, err := os.Lstat(lockPath); err != nil || !fi.Mode().IsRegular() {
			return
		}
		_ = os.Remove(lockPath) // the writer keeps its lock on the unlinked file
		if err := syscall.Mkfifo(lockPath, 0600); err != nil {
			h.fail("mkfifo: %v", err)
		}
		type res struct {
			l   klevdb.Log
			err error
		}
		rc := make(chan res, 1)
		asRO := op.RO
		go func() {
			l, err := klevdb.Open(h.dir, h.opts(asRO))
			rc <- res{l, err}
		}()
		// give the second Open time to reach the FIFO (only steers: if it is late, it simply sees the final state)
		deadline := time.Now().Add(20 * time.Millisecond)
		for time.Now().Before(deadline) {
			buf := make([]byte, 1<<16)
			n := runtime.Stack(buf, true)
			if bytes.Contains(buf[:n], []byte("flock.(*Flock)")) {
				break
			}
			time.Sleep(200 * time.Microsecond)
		}
		// the writer moves on: new segments appear, then it closes
		for k := 0; k < 2+op.N%3; k++ {
			var msgs []klevdb.Message
			for j := 0; j < 2+op.N%3; j++ {
				h.ts++
				msgs = append(msgs, klevdb.Message{Time: time.UnixMicro(h.ts), Key: KeyUniverse[(op.N+j)%len(KeyUniverse)], Value: pattern(40+op.N%40, byte(op.N))})
			}
			n, err := a.Publish(msgs)
			if err != nil || n != h.m.Next+int64(len(msgs)) {
				h.fail("Publish returned %d,%v", n, err)
			}
			for _, x := range msgs {
				h.m.Append(FromMessage(x))
			}
		}
		if op.RmIx && len(h.m.Live) > 0 {
			// ... or the newest message goes, which also creates a new head
			last := h.m.Live[len(h.m.Live)-1].Off
			if del, _, err := a.Delete(map[int64]struct{}{last: {}}); err == nil && len(del) == 1 {
				h.m.Remove(last)
			}
		}
		if err := a.Close(); err != nil {
			h.fail("Close failed: %v", err)
		}
		h.slots[slot], h.mode[slot] = nil, 0
		// release the parked Open: open the other end of the FIFO
		fifo, ferr := os.OpenFile(lockPath, os.O_RDWR, 0)
		r := <-rc
		if ferr == nil {
			_ = fifo.Close()
		}
		if r.err != nil {
			_ = os.Remove(lockPath)
			h.fail("an Open (read-only=%v) that got the lock after the writer closed failed: %v", asRO, r.err)
		}
		next, nerr := r.l.NextOffset()
		got, serr := scanLog(r.l)
		cerr := r.l.Close()
		_ = os.Remove(lockPath) // the next Open creates a regular lock file again
		if nerr != nil || next != h.m.Next {
			h.fail("a handle (read-only=%v) opened while the writer was closing reports NextOffset %d,%v; the writer's last Publish returned %d", asRO, next, nerr, h.m.Next)
		}
		if serr != nil || len(got) != len(h.m.Live) {
			h.fail("a handle (read-only=%v) opened while the writer was closing reads %d messages (%v), the log holds %d", asRO, len(got), serr, len(h.m.Live))
		}
		if cerr != nil {
			h.fail("Close failed: %v", cerr)
		}
		h.st.Inc("opens_parked_in_lock_acquisition_while_writer_closes")
	case "fail-listing":
		// a stray file that makes the segment listing fail after the lock was taken: whatever Open answers, the
		// lock must be free again afterwards ("the lock is released by Close and by a failed Open")
		if rw != 0 {
			return
		}
		stray := filepath.Join(h.dir, []string{"notes.log", "x1.log", "backup.index", "0000000000000000000z.log"}[op.N%4])
		if err := os.WriteFile(stray, []byte("stray"), 0600); err != nil {
			return
		}
		o := h.opts(op.RO || ro > 0)
		l, err := klevdb.Open(h.dir, o)
		_ = os.Remove(stray)
		if err == nil {
			_ = l.Close()
			h.st.Inc("opens_with_a_stray_file_that_succeeded")
		} else {
			h.flags["failed-open"] = true
			h.st.Inc("failed_opens")
			h.st.Inc("failed_opens_in_segment_listing")
		}
		o2 := h.opts(ro > 0)
		l2, err2 := klevdb.Open(h.dir, o2)
		if err2 != nil {
			h.fail("an Open (read-only=%v) with a stray file %s in the directory returned %v; afterwards, with the file removed and %d read-only handles open, Open (read-only=%v) fails: %v", o.Readonly, filepath.Base(stray), err, ro, o2.Readonly, err2)
			return
		}
		if err != nil {
			h.flags["failed-then-ok"] = true
		}
		if cerr := l2.Close(); cerr != nil {
			h.fail("Close failed: %v", cerr)
		}
	case "fail-missing":
		o := h.opts(op.RO)
		if l, err := klevdb.Open(filepath.Join(h.dir, "no-such-dir"), o); err == nil {
			_ = l.Close()
			h.fail("Open of a missing directory succeeded")
		}
		h.flags["failed-open"] = true
		h.st.Inc("failed_opens")
	}
}

func runHandlesCase(c *HandlesCase, st *Stats) {
	root := MkScratch("vf-c19-")
	defer os.RemoveAll(root)
	h := &hEnv{c: c, dir: filepath.Join(root, "log"), m: NewModel(), st: st, flags: map[string]bool{}, ts: 10}
	_ = os.MkdirAll(h.dir, 0700)
	defer func() {
		for _, l := range h.slots {
			if l != nil {
				_ = l.Close()
			}
		}
	}()
	for _, op := range c.Ops {
		h.apply(op)
	}
	st.Eval(1)
	if h.flags["failed-then-ok"] || h.flags["ro2"] {
		st.NonTrivial(mustJSON(c))
		if st.WantSample() && len(c.Ops) < 30 {
			st.Sample(c)
		}
	}
	for f := range h.flags {
		st.Inc("cases_with." + f)
	}
}

func genHandlesCase(t *rapid.T) *HandlesCase {
	c := &HandlesCase{Keys: rapid.Bool().Draw(t, "keys"), Times: rapid.Bool().Draw(t, "times"), Rollover: int64(pick(t, []int{100, 300, 1 << 20}, "rollover"))}
	n := 5 + uni(t, 40, "nops")
	kinds := []string{"open-rw", "open-rw", "open-ro", "open-ro", "open-ro", "close", "close", "close", "publish", "publish", "ro-queries", "fail-flags", "fail-corrupt", "fail-missing", "fail-listing", "ro-damaged", "damaged-read-close", "open-while-closing"}
	for i := 0; i < n; i++ {
		c.Ops = append(c.Ops, HOp{Kind: pick(t, kinds, "kind"), Slot: uni(t, 3, "slot"), RO: rapid.Bool().Draw(t, "ro"), N: uni(t, 64, "n"), RmIx: uni(t, 4, "rmix") == 3})
	}
	return c
}

func TestC19Handles(t *testing.T) {
	runCase(t, "C19", "handles", genHandlesCase, runHandlesCase, nil)
}

func init() { registerReplay("handles", runHandlesCase) }
