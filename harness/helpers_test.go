package vf

// C08 (helpers): the Multi helpers (DeleteMulti, Trim*Multi, Compact*Multi, Compact) are made to run next to other
// callers - that is what their back-off argument is for. One helper call is held at one of the pause points of the
// Delete it is in the middle of, a Publish of messages with FRESH keys runs to completion, the helper is released.
// A helper is several calls, so there is nothing to linearize; what must hold is what C12/C15/C16 say about it,
// restricted to what a Publish of unrelated keys cannot change: nothing but messages of the state before is removed,
// none of them is altered, every message of the concurrent Publish is live afterwards, the helper reports exactly what
// disappeared, and (compactions) the latest value of every key of the state before is what it was.

import (
	"bytes"
	"context"
	"fmt"
	"os"
	"sync/atomic"
	"testing"
	"time"

	"github.com/klev-dev/klevdb"
	"github.com/klev-dev/klevdb/pkg/verifhook"
	"pgregory.net/rapid"
)

type HelperCase struct {
	Rollover int64    `json:"rollover"`
	Keep     bool     `json:"keep"`
	V1       bool     `json:"v1"`
	Prefix   []*SCall `json:"prefix"`
	Helper   string   `json:"helper"` // compact-updates compact-deletes compact trim-offset trim-age delete-multi
	N        int64    `json:"n"`      // cut-off time (µs) / offset bound
	Set      []int64  `json:"set,omitempty"`
	Point    string   `json:"point"`
	Hit      int      `json:"hit"`
	Pub      []MsgIn  `json:"publish"` // fresh keys
}

var helperPoints = []string{"delete.reader-found", "delete.target-chosen", "delete.after-rewrite", "delete.after-rewrite", "delete.before-swap"}

func latestOf(live []Msg) map[string]string {
	out := map[string]string{}
	for _, x := range live {
		if len(x.V) == 0 {
			out[string(x.K)] = "\x00absent"
		} else {
			out[string(x.K)] = string(x.V)
		}
	}
	return out
}

func runHelperCase(c *HelperCase, st *Stats) {
	w, err := newWinEnv(&WinCase{Rollover: c.Rollover, Keep: c.Keep, V1: c.V1})
	if err != nil {
		cfail("err", "open: %v", err)
	}
	defer w.cleanup()
	for _, p := range c.Prefix {
		w.seq(p)
	}
	pre := w.m.Clone()
	hit := make(chan struct{})
	release := make(chan struct{})
	var armed atomic.Bool
	armed.Store(true)
	var skip atomic.Int64
	skip.Store(int64(c.Hit))
	var hgid atomic.Int64
	verifhook.SetPause(func(p string) {
		if p == c.Point && goid() == hgid.Load() && skip.Add(-1) < 0 && armed.CompareAndSwap(true, false) {
			close(hit)
			<-release
		}
	})
	defer verifhook.SetPause(nil)
	ctx := context.Background()
	var reported []klevdb.Message
	var reportedOffs map[int64]struct{}
	hasReport := true
	var herr error
	done := make(chan struct{})
	go func() {
		defer close(done)
		hgid.Store(goid())
		switch c.Helper {
		case "compact-updates":
			reported, _, herr = klevdb.CompactUpdatesMulti(ctx, w.l, time.UnixMicro(c.N), noBackoff)
		case "compact-deletes":
			reported, _, herr = klevdb.CompactDeletesMulti(ctx, w.l, time.UnixMicro(c.N), noBackoff)
		case "compact":
			hasReport = false
			// age such that both cut-offs are far in the future of every message: everything is old enough
			herr = klevdb.Compact(ctx, w.l, -time.Hour, noBackoff)
		case "trim-offset":
			reported, _, herr = klevdb.TrimByOffsetMulti(ctx, w.l, c.N, noBackoff)
		case "trim-age":
			reported, _, herr = klevdb.TrimByAgeMulti(ctx, w.l, time.UnixMicro(c.N), noBackoff)
		case "delete-multi":
			reportedOffs, _, herr = klevdb.DeleteMultiOffsets(ctx, w.l, offsetSet(c.Set), noBackoff)
			hasReport = false
		}
	}()
	wasHit := false
	var pub []klevdb.Message
	var pubNext int64
	var perr error
	doPublish := func() {
		pub = make([]klevdb.Message, len(c.Pub))
		for i, in := range c.Pub {
			pub[i] = klevdb.Message{Time: time.UnixMicro(in.TS), Key: []byte(in.K), Value: []byte(in.V)}
		}
		pubNext, perr = w.l.Publish(pub)
	}
	select {
	case <-hit:
		wasHit = true
		pd := make(chan struct{})
		go func() { doPublish(); close(pd) }()
		select {
		case <-pd:
		case <-time.After(15 * time.Millisecond):
			// the Publish waits for a lock the helper holds: let the helper go on (this only steers the schedule)
			st.Inc("publish_blocked_behind_helper")
		}
		close(release)
		<-pd
		<-done
	case <-done:
		armed.Store(false)
		close(release)
		doPublish()
	}
	verifhook.SetPause(nil)
	what := fmt.Sprintf("%s(n=%d set=%v) held at %s (occurrence %d, reached=%v) with Publish(%d fresh keys) inside; state before: next=%d live=%v", c.Helper, c.N, c.Set, c.Point, c.Hit+1, wasHit, len(c.Pub), pre.Next, pre.Offsets())
	if herr != nil {
		cfail("helpers", "%s failed: %v\n  %s", c.Helper, herr, what)
	}
	if perr != nil || pubNext != pre.Next+int64(len(pub)) {
		cfail("helpers", "the concurrent Publish returned %d,%v want %d\n  %s", pubNext, perr, pre.Next+int64(len(pub)), what)
	}
	got, err := scanLog(w.l)
	if err != nil {
		cfail("helpers", "reading the log afterwards: %v\n  %s", err, what)
	}
	gotBy := map[int64]klevdb.Message{}
	for _, g := range got {
		gotBy[g.Offset] = g
	}
	// every message of the concurrent Publish is live
	for i, m := range pub {
		g, ok := gotBy[pre.Next+int64(i)]
		if !ok || !FromMessage(m).Eq(g) {
			cfail("helpers", "message %d of the concurrent Publish (offset %d, a key nothing else uses) is not in the log afterwards\n  %s", i, pre.Next+int64(i), what)
		}
	}
	// nothing of the state before is altered; what disappeared is what was reported
	final := NewModel()
	gone := map[int64]bool{}
	for _, x := range pre.Live {
		g, ok := gotBy[x.Off]
		switch {
		case !ok:
			gone[x.Off] = true
		case !x.Eq(g):
			cfail("helpers", "message %d changed\n  %s", x.Off, what)
		default:
			final.Append(x)
		}
	}
	for _, g := range got {
		if _, was := pre.Find(g.Offset); !was && g.Offset < pre.Next {
			cfail("helpers", "offset %d is in the log afterwards but was not live before\n  %s", g.Offset, what)
		}
	}
	if hasReport || reportedOffs != nil {
		rep := map[int64]bool{}
		for _, d := range reported {
			rep[d.Offset] = true
		}
		for o := range reportedOffs {
			rep[o] = true
		}
		for o := range gone {
			if !rep[o] {
				cfail("helpers", "offset %d disappeared but %s did not report it (reported %v)\n  %s", o, c.Helper, keysOf(rep), what)
			}
		}
		for o := range rep {
			if !gone[o] {
				cfail("helpers", "%s reported offset %d but it is still in the log (or was not live)\n  %s", c.Helper, o, what)
			}
		}
	}
	switch c.Helper {
	case "compact-updates", "compact-deletes", "compact":
		l0, l1 := latestOf(pre.Live), latestOf(final.Live)
		for k, v := range l0 {
			v1, ok := l1[k]
			if !ok && v == "\x00absent" {
				continue // the tombstone itself went: the key is absent either way
			}
			if !ok || v1 != v {
				show := func(s string) string {
					if s == "\x00absent" {
						return "absent (tombstone)"
					}
					return fmt.Sprintf("%q", s)
				}
				cfail("helpers", "the latest value of key %q changed from %s to %s (present=%v)\n  %s", k, show(v), show(v1), ok, what)
			}
		}
	case "trim-offset":
		for o := range gone {
			if o >= c.N {
				cfail("helpers", "TrimByOffsetMulti(%d) removed offset %d\n  %s", c.N, o, what)
			}
		}
	case "trim-age":
		for _, x := range pre.Live {
			if gone[x.Off] && x.TS > c.N {
				cfail("helpers", "TrimByAgeMulti(%d) removed message %d with time %d\n  %s", c.N, x.Off, x.TS, what)
			}
		}
	case "delete-multi":
		req := offsetSet(c.Set)
		for o := range gone {
			if _, ok := req[o]; !ok {
				cfail("helpers", "DeleteMultiOffsets(%v) removed offset %d\n  %s", c.Set, o, what)
			}
		}
	}
	st.Eval(1)
	if wasHit {
		st.Inc("helper_point_hit." + c.Point)
		st.Inc("helper." + c.Helper)
		st.NonTrivialStr(fmt.Sprintf("helper|%s|%s|%d|%x", c.Helper, c.Point, c.Hit, sha8(mustJSON(c))))
		if st.WantSample() {
			st.Sample(c)
		}
	} else {
		st.Inc("helper_point_not_reached")
	}
	_ = bytes.Equal
	_ = os.Remove
}

func TestC08Helpers(t *testing.T) {
	st := NewStats("C08")
	defer st.Write()
	var lastCase *HelperCase
	var lastViol *Violation
	defer func() {
		if t.Failed() && lastCase != nil {
			path := WriteReplay("C08", "helpers", lastViol, lastCase)
			fmt.Printf("%v\nVIOLATION property=C08 replay=%s\n", lastViol, path)
		}
	}()
	rapid.Check(t, func(rt *rapid.T) {
		c := &HelperCase{Rollover: int64(pick(rt, []int{60, 130, 250, 1 << 20}, "rollover")), Keep: uni(rt, 3, "keep") > 0, V1: uni(rt, 4, "v1") == 3}
		// a prefix with repeated keys and tombstones, times strictly increasing from 10
		m := NewModel()
		g := &winGen{t: rt, m: m, maxT: 10}
		np := 2 + uni(rt, 7, "prefix_len")
		for i := 0; i < np; i++ {
			n := 1 + uni(rt, 3, "n")
			msgs := g.msgs(n)
			for j := range msgs {
				msgs[j].Bogus = 0
				if uni(rt, 3, "tombstone") == 0 {
					msgs[j].V = nil
				}
			}
			c.Prefix = append(c.Prefix, &SCall{Kind: "publish", Msgs: msgs})
			for range msgs {
				m.Next++
			}
		}
		total := m.Next
		c.Helper = pick(rt, []string{"compact-updates", "compact-deletes", "compact", "compact", "trim-offset", "trim-age", "delete-multi"}, "helper")
		switch c.Helper {
		case "trim-offset":
			c.N = int64(uni(rt, int(total)+1, "before"))
		case "delete-multi":
			ns := 1 + uni(rt, 5, "n_set")
			for i := 0; i < ns; i++ {
				c.Set = append(c.Set, int64(uni(rt, int(total), "off")))
			}
		default:
			c.N = 10 + int64(uni(rt, int(g.maxT), "cutoff"))
		}
		c.Point = pick(rt, helperPoints, "point")
		c.Hit = pick(rt, []int{0, 0, 0, 1, 1, 2, 3}, "hit")
		np2 := 1 + uni(rt, 2, "n_pub")
		for i := 0; i < np2; i++ {
			g.maxT++
			c.Pub = append(c.Pub, MsgIn{TS: g.maxT, K: HexBytes(fmt.Sprintf("fresh-%d", i)), V: pattern(1+uni(rt, 40, "vlen"), 7)})
		}
		if v := protect(func() { runHelperCase(c, st) }); v != nil {
			lastCase, lastViol = c, v
			rt.Fatalf("%s", v.Error())
		}
	})
}

func init() { registerReplay("helpers", runHelperCase) }
