package vf

import (
	"crypto/sha256"
	"encoding/binary"
	"encoding/hex"
	"encoding/json"
	"fmt"
	"os"
	"path/filepath"
	"runtime/debug"
	"sort"
	"sync"
)

// HexBytes marshals as a hex string; nil marshals as null so nil and empty stay distinguishable in traces.
type HexBytes []byte

func (h HexBytes) MarshalJSON() ([]byte, error) {
	if h == nil {
		return []byte("null"), nil
	}
	return json.Marshal(hex.EncodeToString(h))
}

func (h *HexBytes) UnmarshalJSON(b []byte) error {
	if string(b) == "null" {
		*h = nil
		return nil
	}
	var s string
	if err := json.Unmarshal(b, &s); err != nil {
		return err
	}
	d, err := hex.DecodeString(s)
	if err != nil {
		return err
	}
	if d == nil {
		d = []byte{}
	}
	*h = d
	return nil
}

// Violation is raised (by panic) when an owned oracle fails.
type Violation struct {
	Oracle string
	Msg    string
	Sig    string // signature used to match known findings ("" = none)
}

func (v *Violation) Error() string { return fmt.Sprintf("[%s] %s", v.Oracle, v.Msg) }

// Stats is what one test process measured; the driver merges the shard files into evidence.
type Stats struct {
	mu          sync.Mutex
	Property    string            `json:"property"`
	Evaluations int64             `json:"evaluations"`
	Counters    map[string]int64  `json:"counters"`
	NT          []string          `json:"nontrivial_hashes"`
	Samples     []json.RawMessage `json:"samples"`
	Known       map[string]int64  `json:"known"`
	KnownWhat   map[string]string `json:"known_what"`
	Exhaustive  bool              `json:"exhaustive,omitempty"`
	Space       string            `json:"space,omitempty"`
	nt          map[uint64]struct{}
	maxSamples  int
}

func NewStats(prop string) *Stats {
	return &Stats{Property: prop, Counters: map[string]int64{}, Known: map[string]int64{}, KnownWhat: map[string]string{}, nt: map[uint64]struct{}{}, maxSamples: 3}
}

func (s *Stats) Add(name string, n int64) {
	s.mu.Lock()
	s.Counters[name] += n
	s.mu.Unlock()
}

func (s *Stats) Inc(name string) { s.Add(name, 1) }

func (s *Stats) Eval(n int64) {
	s.mu.Lock()
	s.Evaluations += n
	s.mu.Unlock()
}

// NonTrivial records one distinct non-trivial case by the hash of its identifying bytes.
func (s *Stats) NonTrivial(id []byte) {
	h := sha256.Sum256(id)
	s.mu.Lock()
	s.nt[binary.BigEndian.Uint64(h[:8])] = struct{}{}
	s.mu.Unlock()
}

func (s *Stats) NonTrivialStr(id string) { s.NonTrivial([]byte(id)) }

func (s *Stats) Sample(v any) {
	s.mu.Lock()
	defer s.mu.Unlock()
	if len(s.Samples) >= s.maxSamples {
		return
	}
	b, err := json.Marshal(v)
	if err == nil {
		s.Samples = append(s.Samples, b)
	}
}

func (s *Stats) WantSample() bool {
	s.mu.Lock()
	defer s.mu.Unlock()
	return len(s.Samples) < s.maxSamples
}

func (s *Stats) KnownHit(id, what string) {
	s.mu.Lock()
	s.Known[id]++
	s.KnownWhat[id] = what
	s.mu.Unlock()
}

// Write stores the statistics in $VF_STATS (if set).
func (s *Stats) Write() {
	p := os.Getenv("VF_STATS")
	if p == "" {
		return
	}
	s.mu.Lock()
	defer s.mu.Unlock()
	s.NT = s.NT[:0]
	for h := range s.nt {
		s.NT = append(s.NT, fmt.Sprintf("%016x", h))
	}
	sort.Strings(s.NT)
	b, _ := json.Marshal(s)
	_ = os.WriteFile(p, b, 0644)
}

// KnownFinding is one entry of /verif/known_findings.json (read-only at run time).
type KnownFinding struct {
	ID       string `json:"id"`
	Status   string `json:"status"` // "finding" or "fixed"
	Property string `json:"property"`
	Sig      string `json:"signature,omitempty"`
	Commit   string `json:"commit,omitempty"`
	What     string `json:"what"`
}

type knownFile struct {
	Findings []KnownFinding `json:"findings"`
}

var knownOnce sync.Once
var knownList []KnownFinding

func verifRoot() string {
	if r := os.Getenv("VF_ROOT"); r != "" {
		return r
	}
	return "/verif"
}

func loadKnown() []KnownFinding {
	knownOnce.Do(func() {
		b, err := os.ReadFile(filepath.Join(verifRoot(), "known_findings.json"))
		if err != nil {
			return
		}
		var kf knownFile
		if json.Unmarshal(b, &kf) == nil {
			knownList = kf.Findings
		}
	})
	return knownList
}

// MatchKnown returns the listed (unfixed) finding whose signature equals sig for this property.
// Entries with status "fixed" never match: they suppress nothing.
func MatchKnown(prop, sig string) *KnownFinding {
	if sig == "" {
		return nil
	}
	for i, k := range loadKnown() {
		if k.Status == "finding" && k.Property == prop && k.Sig == sig {
			return &loadKnown()[i]
		}
	}
	return nil
}

// ReplayFile is the library-independent description of one failing (or sample) case.
type ReplayFile struct {
	Property string          `json:"property"`
	Engine   string          `json:"engine"`
	Oracle   string          `json:"oracle,omitempty"`
	Message  string          `json:"message,omitempty"`
	Case     json.RawMessage `json:"case"`
}

// WriteReplay stores a failing case under /verif/replay/<property>/ and returns its path.
func WriteReplay(prop, engine string, v *Violation, c any) string {
	cb, _ := json.Marshal(c)
	rf := ReplayFile{Property: prop, Engine: engine, Case: cb}
	if v != nil {
		rf.Oracle, rf.Message = v.Oracle, v.Msg
	}
	b, _ := json.MarshalIndent(rf, "", " ")
	h := sha256.Sum256(cb)
	dir := os.Getenv("VF_REPLAY_DIR")
	if dir == "" {
		dir = filepath.Join(verifRoot(), "replay", prop)
	}
	_ = os.MkdirAll(dir, 0755)
	p := filepath.Join(dir, fmt.Sprintf("%s-%x.json", engine, h[:6]))
	_ = os.WriteFile(p, b, 0644)
	return p
}

func ReadReplay(path string) (*ReplayFile, error) {
	b, err := os.ReadFile(path)
	if err != nil {
		return nil, err
	}
	var rf ReplayFile
	if err := json.Unmarshal(b, &rf); err != nil {
		return nil, err
	}
	return &rf, nil
}

// ScratchRoot is where case directories live: tmpfs when available.
func ScratchRoot() string {
	if d := os.Getenv("VF_SCRATCH"); d != "" {
		return d
	}
	if st, err := os.Stat("/dev/shm"); err == nil && st.IsDir() {
		return "/dev/shm"
	}
	return os.TempDir()
}

func MkScratch(prefix string) string {
	d, err := os.MkdirTemp(ScratchRoot(), prefix)
	if err != nil {
		panic(err)
	}
	return d
}

// protect runs f and converts a raised Violation (or any other panic) into a value.
func protect(f func()) (v *Violation) {
	defer func() {
		if r := recover(); r != nil {
			if vv, ok := r.(*Violation); ok {
				v = vv
				return
			}
			if isRapidInternal(r) {
				panic(r)
			}
			v = &Violation{Oracle: "panic", Msg: fmt.Sprintf("panic: %v\n%s", r, debug.Stack())}
		}
	}()
	f()
	return nil
}

func mustJSON(v any) []byte {
	b, err := json.Marshal(v)
	if err != nil {
		panic(err)
	}
	return b
}

func sha8(b []byte) []byte {
	h := sha256.Sum256(b)
	return h[:8]
}

// isRapidInternal reports panics rapid uses for its own control flow (invalid data, stop test).
func isRapidInternal(r any) bool {
	s := fmt.Sprintf("%T", r)
	return s == "rapid.invalidData" || s == "rapid.stopTest" || s == "rapid.testError"
}
