// Package vf is the verification harness for klevdb: reference model, independent
// format codec, observation helpers and the generated-input engines that decide the
// properties in /verif/properties.jsonl. See /verif/DESIGN.md.
package vf

import (
	"bytes"
	"sort"

	"github.com/klev-dev/klevdb"
)

// Msg is the model's view of one message. Nil and empty byte slices are the same value.
type Msg struct {
	Off int64
	TS  int64 // unix microseconds
	K   []byte
	V   []byte
}

func (m Msg) Eq(b klevdb.Message) bool {
	return m.Off == b.Offset && m.TS == b.Time.UnixMicro() && bytes.Equal(m.K, b.Key) && bytes.Equal(m.V, b.Value)
}

func FromMessage(b klevdb.Message) Msg {
	return Msg{Off: b.Offset, TS: b.Time.UnixMicro(), K: append([]byte(nil), b.Key...), V: append([]byte(nil), b.Value...)}
}

// Model is the reference log: what the properties say a log is. It knows nothing about segments.
type Model struct {
	Next int64
	Live []Msg // sorted by offset
	Mono bool  // message times never decreased with offset so far (sticky false)
	MaxT int64 // largest time published so far
	MinT int64 // smallest time published so far
	Any  bool  // at least one message was ever published
}

func NewModel() *Model { return &Model{Mono: true} }

func (m *Model) Clone() *Model {
	c := *m
	c.Live = append([]Msg(nil), m.Live...)
	return &c
}

// Idx returns the index of the first live message with offset >= off.
func (m *Model) Idx(off int64) int {
	return sort.Search(len(m.Live), func(i int) bool { return m.Live[i].Off >= off })
}

// Find returns the live message with exactly this offset.
func (m *Model) Find(off int64) (Msg, bool) {
	i := m.Idx(off)
	if i < len(m.Live) && m.Live[i].Off == off {
		return m.Live[i], true
	}
	return Msg{}, false
}

func (m *Model) Append(x Msg) {
	if m.Any && x.TS < m.MaxT {
		m.Mono = false
	}
	if !m.Any || x.TS > m.MaxT {
		m.MaxT = x.TS
	}
	if !m.Any || x.TS < m.MinT {
		m.MinT = x.TS
	}
	m.Any = true
	m.Live = append(m.Live, x)
	m.Next = x.Off + 1
}

// Remove deletes the live message with this offset; reports whether it was live.
func (m *Model) Remove(off int64) bool {
	i := m.Idx(off)
	if i < len(m.Live) && m.Live[i].Off == off {
		m.Live = append(m.Live[:i:i], m.Live[i+1:]...)
		return true
	}
	return false
}

// LastWithKey returns the live message with the greatest offset whose key equals k.
func (m *Model) LastWithKey(k []byte) (Msg, bool) {
	for i := len(m.Live) - 1; i >= 0; i-- {
		if bytes.Equal(m.Live[i].K, k) {
			return m.Live[i], true
		}
	}
	return Msg{}, false
}

func (m *Model) WithKey(k []byte) []Msg {
	var out []Msg
	for _, x := range m.Live {
		if bytes.Equal(x.K, k) {
			out = append(out, x)
		}
	}
	return out
}

// FirstAtOrAfterTime returns the live message with the smallest offset whose time is >= ts.
func (m *Model) FirstAtOrAfterTime(ts int64) (Msg, bool) {
	for _, x := range m.Live {
		if x.TS >= ts {
			return x, true
		}
	}
	return Msg{}, false
}

// Latest maps key -> value of its last live message; a value-less message means absent.
func (m *Model) Latest() map[string]string {
	r := map[string]string{}
	for _, x := range m.Live {
		if len(x.V) == 0 {
			delete(r, string(x.K))
		} else {
			r[string(x.K)] = string(x.V)
		}
	}
	return r
}

func (m *Model) Offsets() []int64 {
	out := make([]int64, len(m.Live))
	for i, x := range m.Live {
		out[i] = x.Off
	}
	return out
}
