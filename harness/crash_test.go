package vf

import (
	"fmt"
	"strings"
	"testing"

	"pgregory.net/rapid"
)

var crashKeys = [][]byte{[]byte("a"), []byte("b"), nil, collisionPairs[0][0], collisionPairs[0][1]}

func genCrashOp(t *rapid.T, e *CrashEnv, lastTS *int64) COp {
	m := e.M
	kinds := []string{"publish", "publish", "publish", "publish", "publish", "publish", "publish", "publish", "delete", "delete", "delete", "delete", "delete",
		"reopen", "reopen-recover", "reopen-migrate", "rmindex-reopen", "reopen-switch", "reopen-switch", "pkg-migrate", "pkg-migrate", "pkg-recover", "sync", "gc"}
	if e.C.Power {
		kinds = append(kinds, "sync", "sync", "sync", "publish", "publish")
	}
	k := pick(t, kinds, "op")
	if k == "delete" && len(m.Live) == 0 {
		k = "publish"
	}
	switch k {
	case "publish":
		n := 1 + uni(t, 5, "batch")
		op := COp{Kind: "publish"}
		for i := 0; i < n; i++ {
			if e.C.AnyTimes {
				*lastTS = 1 + int64(uni(t, 40, "ts"))
			} else {
				*lastTS += int64(pick(t, []int{0, 0, 1, 2}, "dt"))
			}
			in := MsgIn{TS: *lastTS}
			if kk := pick(t, crashKeys, "key"); kk != nil {
				in.K = append([]byte{}, kk...)
			}
			if vl := uni(t, 31, "vlen"); vl > 0 {
				in.V = pattern(vl, byte(uni(t, 256, "vseed")))
			}
			op.Msgs = append(op.Msgs, in)
		}
		return op
	case "delete":
		set := map[int64]struct{}{}
		if len(m.Live) == 0 {
			set[m.Next] = struct{}{}
			return COp{Kind: "delete", Offsets: sortedOffsets(set)}
		}
		switch pick(t, []string{"last", "last", "first", "random", "random", "segment", "seg-first", "seg-first", "seg-last", "head-all"}, "shape") {
		case "last":
			n := 1 + uni(t, 2, "n")
			for i := 0; i < n && i < len(m.Live); i++ {
				set[m.Live[len(m.Live)-1-i].Off] = struct{}{}
			}
		case "first":
			set[m.Live[0].Off] = struct{}{}
		case "random":
			n := 1 + uni(t, 4, "n")
			for i := 0; i < n; i++ {
				set[m.Live[uni(t, len(m.Live), "ix")].Off] = struct{}{}
			}
		default:
			shape := "seg"
			segs, _ := ReadSegs(e.Dir)
			var ne []SegInfo
			for _, s := range segs {
				if len(s.Recs) > 0 {
					ne = append(ne, s)
				}
			}
			if len(ne) == 0 {
				set[m.Live[0].Off] = struct{}{}
				break
			}
			sg := ne[uni(t, len(ne), "seg")]
			switch pick(t, []string{"all", "first", "first", "last", "first+last"}, shape) {
			case "all":
				for _, r := range sg.Recs {
					set[r.Off] = struct{}{}
				}
			case "first":
				set[sg.Recs[0].Off] = struct{}{}
			case "last":
				set[sg.Recs[len(sg.Recs)-1].Off] = struct{}{}
			default:
				set[sg.Recs[0].Off] = struct{}{}
				set[sg.Recs[len(sg.Recs)-1].Off] = struct{}{}
			}
		}
		return COp{Kind: "delete", Offsets: sortedOffsets(set)}
	case "reopen-migrate", "pkg-migrate":
		return COp{Kind: k, ToV1: !e.CurV1 || uni(t, 4, "same") == 0}
	case "reopen-switch":
		names, _ := listLogs(e.Dir)
		var rm []string
		for _, n := range names {
			if rapid.Bool().Draw(t, "rm") {
				rm = append(rm, strings.TrimSuffix(n, ".log")+".index")
			}
		}
		return COp{Kind: k, ToV1: !e.CurV1, RmIdx: rm}
	case "rmindex-reopen":
		names, _ := listLogs(e.Dir)
		var rm []string
		for _, n := range names {
			if rapid.Bool().Draw(t, "rm") {
				rm = append(rm, strings.TrimSuffix(n, ".log")+".index")
			}
		}
		return COp{Kind: k, RmIdx: rm}
	}
	return COp{Kind: k}
}

func genCrashCfg(t *rapid.T, power bool) *CrashCase {
	c := &CrashCase{Keys: rapid.Bool().Draw(t, "keys"), Times: rapid.Bool().Draw(t, "times"), Power: power,
		Rollover: int64(pick(t, []int{60, 130, 250, 1 << 20}, "rollover")), V1: uni(t, 4, "v1") == 3, Keep: rapid.Bool().Draw(t, "keep"), AnyTimes: uni(t, 4, "any_times") == 3}
	if power {
		c.AutoSync = uni(t, 3, "autosync") == 2
	} else {
		c.AutoSync = uni(t, 6, "autosync") == 5
	}
	return c
}

func tierBudget() crashBudget {
	if thoroughTier() {
		return crashBudget{tornAll: true, depth2Every: 3, depth2Torn: 5}
	}
	return crashBudget{tornAll: false, depth2Every: 6, depth2Torn: 9}
}

// runCrashCase replays a concrete workload and checks all of its images.
func runCrashCase(c *CrashCase, st *Stats) {
	prop := "C05"
	if c.Power {
		prop = "C06"
	}
	e := NewCrashEnv(c, st, prop)
	defer e.Cleanup()
	e.Start()
	for _, op := range c.Ops {
		e.Apply(op)
	}
	e.Finish()
	checkCrashEnv(e)
}

func checkCrashEnv(e *CrashEnv) {
	if e.HookGap != "" {
		panic(&Violation{Oracle: "hook-coverage", Msg: "HOOK-COVERAGE: " + e.HookGap})
	}
	if e.C.Power {
		every, rv := 1, 3
		if thoroughTier() {
			every, rv = 1, 8
		}
		e.CheckPowerImages(every, rv)
	} else {
		e.CheckAllImages(tierBudget())
	}
	e.St.Inc("workloads")
}

func runCrash(t *testing.T, power bool) {
	prop := "C05"
	if power {
		prop = "C06"
	}
	st := NewStats(prop)
	defer st.Write()
	var lastCase *CrashCase
	var lastViol *Violation
	defer func() {
		if t.Failed() && lastCase != nil {
			if lastViol != nil && lastViol.Oracle == "hook-coverage" {
				// a missing FS hook makes the run inconclusive, not a violation
				fmt.Printf("INCONCLUSIVE %s\n", lastViol.Msg)
				return
			}
			path := WriteReplay(prop, "crash", lastViol, lastCase)
			fmt.Printf("%v\nVIOLATION property=%s replay=%s\n", lastViol, prop, path)
		}
	}()
	rapid.Check(t, func(rt *rapid.T) {
		c := genCrashCfg(rt, power)
		e := NewCrashEnv(c, st, prop)
		defer e.Cleanup()
		v := protect(func() {
			e.Start()
			lastTS := int64(10)
			nops := 1 + uni(rt, 12, "nops")
			for i := 0; i < nops; i++ {
				op := genCrashOp(rt, e, &lastTS)
				c.Ops = append(c.Ops, op)
				e.Apply(op)
			}
			e.Finish()
			checkCrashEnv(e)
		})
		if v != nil {
			lastCase, lastViol = c, v
			rt.Fatalf("%s", v.Error())
		}
		if st.WantSample() && len(c.Ops) <= 8 {
			st.Sample(map[string]any{"workload": c, "images_so_far": st.Evaluations})
		}
	})
}

func TestC05(t *testing.T) { runCrash(t, false) }
func TestC06(t *testing.T) { runCrash(t, true) }

func init() { registerReplay("crash", runCrashCase) }
