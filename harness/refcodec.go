package vf

// Independent reference implementation of the klevdb on-disk formats, written from the layout
// documented in the comments of pkg/message/format.go and pkg/index/format.go. It shares no code
// with those packages; it is the oracle for C07, C11, C13, C14 and for the layout-dependent
// parts of C12 and C17.

import (
	"encoding/binary"
	"fmt"
	"hash/crc32"
	"os"
	"path/filepath"
	"sort"
	"strconv"
	"strings"
)

var castagnoli = crc32.MakeTable(crc32.Castagnoli)

var RefLogHeaderV2 = []byte{0xFF, 'k', 'l', 'e', 'v', 's', 1, 0}

const refTrailer uint64 = 0xDEADBEEFFEEDFACE
const refMaxBody = 64 << 20

// RefFNV1a64 is FNV-1a 64 written out by hand (not hash/fnv).
func RefFNV1a64(b []byte) uint64 {
	h := uint64(14695981039346656037)
	for _, c := range b {
		h ^= uint64(c)
		h *= 1099511628211
	}
	return h
}

func RefEncodeV2(off, ts int64, k, v []byte) []byte {
	b := make([]byte, 4, 36+len(k)+len(v))
	b = binary.BigEndian.AppendUint64(b, uint64(off))
	b = binary.BigEndian.AppendUint64(b, uint64(ts))
	b = binary.BigEndian.AppendUint32(b, uint32(len(k)))
	b = binary.BigEndian.AppendUint32(b, uint32(len(v)))
	b = append(b, k...)
	b = append(b, v...)
	b = binary.BigEndian.AppendUint64(b, refTrailer)
	binary.BigEndian.PutUint32(b, crc32.Checksum(b[4:], castagnoli))
	return b
}

func RefEncodeV1(off, ts int64, k, v []byte) []byte {
	var b []byte
	b = binary.BigEndian.AppendUint64(b, uint64(off))
	b = binary.BigEndian.AppendUint64(b, uint64(ts))
	b = binary.BigEndian.AppendUint32(b, uint32(len(k)))
	b = binary.BigEndian.AppendUint32(b, uint32(len(v)))
	body := append(append([]byte{}, k...), v...)
	b = binary.BigEndian.AppendUint32(b, crc32.Checksum(body, castagnoli))
	b = append(b, body...)
	return b
}

func RefEncode(v2 bool, off, ts int64, k, v []byte) []byte {
	if v2 {
		return RefEncodeV2(off, ts, k, v)
	}
	return RefEncodeV1(off, ts, k, v)
}

// RefSize is the number of bytes one record occupies in a log file of the given version.
func RefSize(v2 bool, k, v []byte) int64 {
	if v2 {
		return int64(36 + len(k) + len(v))
	}
	return int64(28 + len(k) + len(v))
}

// RefItemSize is the size of one index item.
func RefItemSize(keys, times bool) int64 {
	sz := int64(16)
	if keys {
		sz += 8
	}
	if times {
		sz += 8
	}
	return sz
}

// RRec is one parsed record.
type RRec struct {
	Pos, End int64
	Off, TS  int64
	Key, Val []byte
}

func (r RRec) Msg() Msg { return Msg{Off: r.Off, TS: r.TS, K: r.Key, V: r.Val} }

func IsV2Log(b []byte) bool {
	return len(b) >= 8 && b[0] == 0xFF && string(b[1:6]) == "klevs"
}

// RefParseV2 parses a V2 log file: records of the longest valid prefix, the end position of that
// prefix and whether the whole file was consumed (clean). A file shorter than the header is not
// clean and has prefix end 0.
func RefParseV2(b []byte) ([]RRec, int64, bool) {
	if len(b) < 8 || !IsV2Log(b) || b[6] != 1 || b[7] != 0 {
		return nil, 0, false
	}
	pos := int64(8)
	var recs []RRec
	for {
		rest := b[pos:]
		if len(rest) == 0 {
			return recs, pos, true
		}
		if len(rest) < 28 {
			return recs, pos, false
		}
		crc := binary.BigEndian.Uint32(rest[0:])
		off := int64(binary.BigEndian.Uint64(rest[4:]))
		ts := int64(binary.BigEndian.Uint64(rest[12:]))
		kl := int32(binary.BigEndian.Uint32(rest[20:]))
		vl := int32(binary.BigEndian.Uint32(rest[24:]))
		if kl < 0 || vl < 0 || int64(kl)+int64(vl) > refMaxBody {
			return recs, pos, false
		}
		total := 28 + int64(kl) + int64(vl) + 8
		if int64(len(rest)) < total {
			return recs, pos, false
		}
		if crc32.Checksum(rest[4:total], castagnoli) != crc {
			return recs, pos, false
		}
		if binary.BigEndian.Uint64(rest[total-8:]) != refTrailer {
			return recs, pos, false
		}
		recs = append(recs, RRec{pos, pos + total, off, ts, rest[28 : 28+int64(kl)], rest[28+int64(kl) : 28+int64(kl)+int64(vl)]})
		pos += total
	}
}

// RefParseV1 parses a V1 log file (no file header).
func RefParseV1(b []byte) ([]RRec, int64, bool) {
	pos := int64(0)
	var recs []RRec
	for {
		rest := b[pos:]
		if len(rest) == 0 {
			return recs, pos, true
		}
		if len(rest) < 28 {
			return recs, pos, false
		}
		off := int64(binary.BigEndian.Uint64(rest[0:]))
		ts := int64(binary.BigEndian.Uint64(rest[8:]))
		kl := int32(binary.BigEndian.Uint32(rest[16:]))
		vl := int32(binary.BigEndian.Uint32(rest[20:]))
		crc := binary.BigEndian.Uint32(rest[24:])
		if kl < 0 || vl < 0 || int64(kl)+int64(vl) > refMaxBody {
			return recs, pos, false
		}
		total := 28 + int64(kl) + int64(vl)
		if int64(len(rest)) < total {
			return recs, pos, false
		}
		if crc32.Checksum(rest[28:total], castagnoli) != crc {
			return recs, pos, false
		}
		recs = append(recs, RRec{pos, pos + total, off, ts, rest[28 : 28+int64(kl)], rest[28+int64(kl) : total]})
		pos += total
	}
}

// RefParseLog detects the version the way the format documents it (magic => V2, otherwise V1).
func RefParseLog(b []byte) (recs []RRec, end int64, clean bool, v2 bool) {
	if IsV2Log(b) {
		recs, end, clean = RefParseV2(b)
		return recs, end, clean, true
	}
	recs, end, clean = RefParseV1(b)
	return recs, end, clean, false
}

// RItem is one index item.
type RItem struct {
	Off, Pos, TS int64
	KH           uint64
}

// RefDerive computes the index of a segment from its records: timestamp = max(message time,
// previous item's timestamp), key hash = FNV-1a 64 of the key.
func RefDerive(recs []RRec, keys, times bool) []RItem {
	var out []RItem
	var prev int64
	for _, r := range recs {
		it := RItem{Off: r.Off, Pos: r.Pos}
		if times {
			it.TS = r.TS
			if prev > it.TS {
				it.TS = prev
			}
			prev = it.TS
		}
		if keys {
			it.KH = RefFNV1a64(r.Key)
		}
		out = append(out, it)
	}
	return out
}

func IsV2Index(b []byte) bool {
	return len(b) >= 8 && b[0] == 0xFF && string(b[1:6]) == "klevi"
}

func RefIndexHeaderV2(keys, times bool) []byte {
	h := []byte{0xFF, 'k', 'l', 'e', 'v', 'i', 1, 0}
	if times {
		h[7] |= 1
	}
	if keys {
		h[7] |= 2
	}
	return h
}

func RefEncodeIndex(v2 bool, items []RItem, keys, times bool) []byte {
	var h []byte
	if v2 {
		h = RefIndexHeaderV2(keys, times)
	}
	for _, it := range items {
		h = binary.BigEndian.AppendUint64(h, uint64(it.Off))
		h = binary.BigEndian.AppendUint64(h, uint64(it.Pos))
		if times {
			h = binary.BigEndian.AppendUint64(h, uint64(it.TS))
		}
		if keys {
			h = binary.BigEndian.AppendUint64(h, it.KH)
		}
	}
	return h
}

// RefParseIndex parses an index file in whichever container version its first bytes declare.
func RefParseIndex(b []byte, keys, times bool) (items []RItem, v2 bool, err error) {
	if IsV2Index(b) {
		fl := b[7]
		if b[6] != 1 {
			return nil, true, fmt.Errorf("index version byte %d", b[6])
		}
		if (fl&1 != 0) != times || (fl&2 != 0) != keys || fl&0xFC != 0 {
			return nil, true, fmt.Errorf("index header flags %02x", fl)
		}
		b = b[8:]
		v2 = true
	}
	sz := int(RefItemSize(keys, times))
	if len(b)%sz != 0 {
		return nil, v2, fmt.Errorf("unaligned index %d %% %d", len(b), sz)
	}
	for p := 0; p < len(b); p += sz {
		it := RItem{Off: int64(binary.BigEndian.Uint64(b[p:])), Pos: int64(binary.BigEndian.Uint64(b[p+8:]))}
		q := p + 16
		if times {
			it.TS = int64(binary.BigEndian.Uint64(b[q:]))
			q += 8
		}
		if keys {
			it.KH = binary.BigEndian.Uint64(b[q:])
		}
		items = append(items, it)
	}
	return items, v2, nil
}

// SegInfo is what the directory says about one segment (ground truth for layout-dependent oracles).
type SegInfo struct {
	Base    int64
	Name    string // base file name without extension
	LogPath string
	IdxPath string
	V2      bool
	Empty   bool // zero-length log file (reads as an empty V1 segment)
	LogLen  int64
	Recs    []RRec
	Clean   bool
	HasIdx  bool
	IdxLen  int64
}

func listLogs(dir string) ([]string, error) {
	es, err := os.ReadDir(dir)
	if err != nil {
		return nil, err
	}
	var out []string
	for _, e := range es {
		if strings.HasSuffix(e.Name(), ".log") {
			out = append(out, e.Name())
		}
	}
	sort.Strings(out)
	return out, nil
}

// ReadSegs parses every segment log in dir with the reference parser.
func ReadSegs(dir string) ([]SegInfo, error) {
	names, err := listLogs(dir)
	if err != nil {
		return nil, err
	}
	var out []SegInfo
	for _, n := range names {
		stem := strings.TrimSuffix(n, ".log")
		base, err := strconv.ParseInt(stem, 10, 64)
		if err != nil {
			return nil, fmt.Errorf("segment name %q: %w", n, err)
		}
		b, err := os.ReadFile(filepath.Join(dir, n))
		if err != nil {
			return nil, err
		}
		si := SegInfo{Base: base, Name: stem, LogPath: filepath.Join(dir, n), IdxPath: filepath.Join(dir, stem+".index"), LogLen: int64(len(b)), Empty: len(b) == 0}
		si.Recs, _, si.Clean, si.V2 = RefParseLog(b)
		if st, err := os.Stat(si.IdxPath); err == nil {
			si.HasIdx = true
			si.IdxLen = st.Size()
		}
		out = append(out, si)
	}
	sort.Slice(out, func(i, j int) bool { return out[i].Base < out[j].Base })
	return out, nil
}

// SegOf returns the index of the segment whose file holds offset off (by record), or -1.
func SegOf(segs []SegInfo, off int64) int {
	for i := range segs {
		for _, r := range segs[i].Recs {
			if r.Off == off {
				return i
			}
		}
	}
	return -1
}

// CheckClosedDir verifies C11(1): every index file present equals the index derived from its log.
func CheckClosedDir(dir string, keys, times, mono bool) error {
	segs, err := ReadSegs(dir)
	if err != nil {
		return err
	}
	for _, s := range segs {
		if !s.Clean {
			return fmt.Errorf("segment %d: log does not parse cleanly (v2=%v len=%d)", s.Base, s.V2, s.LogLen)
		}
		if len(s.Recs) > 0 && s.Recs[0].Off != s.Base {
			return fmt.Errorf("segment %d: first record has offset %d", s.Base, s.Recs[0].Off)
		}
		for i := 1; i < len(s.Recs); i++ {
			if s.Recs[i].Off <= s.Recs[i-1].Off {
				return fmt.Errorf("segment %d: offsets not increasing at record %d", s.Base, i)
			}
		}
		if !s.HasIdx {
			continue
		}
		ib, err := os.ReadFile(s.IdxPath)
		if err != nil {
			return err
		}
		items, _, err := RefParseIndex(ib, keys, times)
		if err != nil {
			return fmt.Errorf("segment %d: %w", s.Base, err)
		}
		want := RefDerive(s.Recs, keys, times)
		if len(items) != len(want) {
			return fmt.Errorf("segment %d: index has %d items, log has %d records", s.Base, len(items), len(want))
		}
		for i := range want {
			a, b := items[i], want[i]
			if a.Off != b.Off || a.Pos != b.Pos || a.KH != b.KH || (mono && a.TS != b.TS) {
				return fmt.Errorf("segment %d item %d: index file has %+v, derived from log %+v", s.Base, i, a, b)
			}
		}
	}
	return nil
}

// CheckIndexLayout verifies, for ANY message times, that every index file has the documented content:
// offsets, positions and key hashes of the records in the log, and timestamps that are the running maximum
// of the message times of the records IN THE FILE, starting from one carried value c >= 0 per segment
// (c = 0 for an index built from the log alone, c = the last timestamp of the previous segment for an
// index written by the appending writer). A timestamp that no c explains is not the documented layout.
func CheckIndexLayout(dir string, keys, times bool) error {
	segs, err := ReadSegs(dir)
	if err != nil {
		return err
	}
	for _, s := range segs {
		if !s.Clean || !s.HasIdx {
			continue
		}
		ib, err := os.ReadFile(s.IdxPath)
		if err != nil {
			return err
		}
		items, _, err := RefParseIndex(ib, keys, times)
		if err != nil {
			return fmt.Errorf("segment %d: %w", s.Base, err)
		}
		if len(items) != len(s.Recs) {
			return fmt.Errorf("segment %d: index has %d items, log has %d records", s.Base, len(items), len(s.Recs))
		}
		var runMax int64
		carryMax, bounded := int64(0), false // the largest c still possible (once bounded), c must also be >= carryMin
		carryMin := int64(0)                 // the carried value is a timestamp of an earlier item, or the initial 0
		for i, r := range s.Recs {
			it := items[i]
			if it.Off != r.Off || it.Pos != r.Pos || (keys && it.KH != RefFNV1a64(r.Key)) {
				return fmt.Errorf("segment %d item %d: index file has %+v, record is offset %d at %d", s.Base, i, it, r.Off, r.Pos)
			}
			if !times {
				continue
			}
			if i == 0 || r.TS > runMax {
				runMax = r.TS
			}
			// it.TS must equal max(c, runMax)
			switch {
			case it.TS < runMax:
				return fmt.Errorf("segment %d item %d: index timestamp %d is below the running maximum %d of the message times in the file", s.Base, i, it.TS, runMax)
			case it.TS == runMax:
				// c <= runMax
				if !bounded || runMax < carryMax {
					carryMax, bounded = runMax, true
				}
			default:
				// c == it.TS exactly
				if it.TS < carryMin || (bounded && it.TS > carryMax) {
					return fmt.Errorf("segment %d item %d: index timestamp %d is neither the running maximum %d of the message times in the file nor one carried value", s.Base, i, it.TS, runMax)
				}
				carryMin, carryMax, bounded = it.TS, it.TS, true
			}
			if bounded && carryMin > carryMax {
				return fmt.Errorf("segment %d item %d: index timestamp %d (running maximum of the message times %d): not a running maximum from one carried value >= 0 (the carried value would have to be in [%d,%d])", s.Base, i, it.TS, runMax, carryMin, carryMax)
			}
		}
	}
	return nil
}
