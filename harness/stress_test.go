package vf

// C08 (b): seeded free-running mixes of all calls on small-rollover logs, built with -race.
// Pause points are used as timed windows (a short sleep, no channel hand-off: a controlled release
// would add a happens-before edge and hide a race from the detector). Oracles: the race detector
// (any report is a violation) and history invariants that hold in every linearizable execution.

import (
	"bytes"
	"errors"
	"fmt"
	"math/rand"
	"os"
	"path/filepath"
	"sort"
	"strings"
	"sync"
	"sync/atomic"
	"testing"
	"time"

	"github.com/klev-dev/klevdb"
	"github.com/klev-dev/klevdb/pkg/verifhook"
)

type stressRound struct {
	Seed     int64 `json:"seed"`
	Rollover int64 `json:"rollover"`
	Keep     bool  `json:"keep"`
	V1       bool  `json:"v1"`
	Pubs     int   `json:"publishers"`
	Dels     int   `json:"deleters"`
	Readers  int   `json:"readers"`
	MS       int   `json:"duration_ms"`
}

type stressResult struct {
	Calls        int64    `json:"calls"`
	Rollovers    int      `json:"segments_at_end"`
	HeadDeletes  int64    `json:"deletes_that_removed_the_newest_message"`
	Deleted      int      `json:"deleted"`
	Published    int      `json:"published"`
	Failures     []string `json:"failures"`
	GapsObserved int64    `json:"gaps_observed"`
}

func runStressRound(r stressRound) stressResult {
	dir := MkScratch("vf-stress-")
	defer os.RemoveAll(dir)
	opts := klevdb.Options{KeyIndex: true, TimeIndex: true, Rollover: r.Rollover, AutoSync: r.Seed%3 == 0}
	opts.Version.KeepRewriteVersion = r.Keep
	if r.V1 {
		opts.Version.NewSegmentsVersion = klevdb.V1
	}
	var res stressResult
	l, err := klevdb.Open(dir, opts)
	if err != nil {
		res.Failures = append(res.Failures, "open: "+err.Error())
		return res
	}
	var pc atomic.Int64
	verifhook.SetPause(func(p string) {
		n := pc.Add(1)
		switch {
		case strings.HasPrefix(p, "delete."):
			// a delete in flight is held at each of its points long enough for publishers to roll the segment
			time.Sleep(time.Duration(100+n%400) * time.Microsecond)
		case strings.HasPrefix(p, "publish.rollover."), strings.HasPrefix(p, "reader.gc."), p == "reader.index.before-load":
			time.Sleep(time.Duration(30+n%200) * time.Microsecond)
		case n%6 == 0:
			time.Sleep(time.Duration(20+n%200) * time.Microsecond)
		}
	})
	defer verifhook.SetPause(nil)
	var wg sync.WaitGroup
	stop := make(chan struct{})
	var errMu sync.Mutex
	fail := func(f string, a ...any) {
		errMu.Lock()
		if len(res.Failures) < 20 {
			res.Failures = append(res.Failures, fmt.Sprintf(f, a...))
		}
		errMu.Unlock()
	}
	var calls atomic.Int64
	var published sync.Map // offset -> value string (stored after Publish returns)
	var deleted sync.Map   // offset -> true (stored after Delete returns)
	var gaps sync.Map      // offset -> true: a cursor stepped over it
	var headDeletes, gapCount atomic.Int64
	stopped := func() bool {
		select {
		case <-stop:
			return true
		default:
			return false
		}
	}
	for p := 0; p < r.Pubs; p++ {
		wg.Add(1)
		go func(p int) {
			defer wg.Done()
			rnd := rand.New(rand.NewSource(r.Seed*100 + int64(p)))
			for i := 0; !stopped(); i++ {
				n := rnd.Intn(4)
				msgs := make([]klevdb.Message, n)
				for j := range msgs {
					msgs[j] = klevdb.Message{Offset: int64(rnd.Intn(9) - 3), Time: time.UnixMicro(int64(1000 + i)), Key: winKeys[rnd.Intn(len(winKeys))], Value: []byte(fmt.Sprintf("p%d-%d-%d", p, i, j))}
				}
				no, err := l.Publish(msgs)
				calls.Add(1)
				if err != nil {
					fail("Publish failed: %v", err)
					return
				}
				for j := range msgs {
					if msgs[j].Offset != no-int64(n)+int64(j) {
						fail("Publish returned %d but message %d of %d was assigned offset %d", no, j, n, msgs[j].Offset)
					}
					if _, dup := published.LoadOrStore(msgs[j].Offset, string(msgs[j].Value)); dup {
						fail("offset %d was assigned twice (publishers must receive disjoint ranges)", msgs[j].Offset)
					}
				}
			}
		}(p)
	}
	for d := 0; d < r.Dels; d++ {
		wg.Add(1)
		go func(d int) {
			defer wg.Done()
			rnd := rand.New(rand.NewSource(r.Seed*100 + 50 + int64(d)))
			for !stopped() {
				n, err := l.NextOffset()
				calls.Add(1)
				if err != nil {
					fail("NextOffset failed: %v", err)
					return
				}
				if n < 2 {
					continue
				}
				set := map[int64]struct{}{}
				switch rnd.Intn(4) {
				case 0, 1: // aimed at the head: the newest message(s)
					set[n-1-int64(rnd.Intn(2))] = struct{}{}
				case 2:
					set[int64(rnd.Intn(int(n)))] = struct{}{}
				default:
					lo := int64(rnd.Intn(int(n)))
					for k := int64(0); k < 3; k++ {
						set[lo+k] = struct{}{}
					}
				}
				del, _, err := l.Delete(set)
				calls.Add(1)
				if err != nil && !errors.Is(err, klevdb.ErrNotFound) && !errors.Is(err, klevdb.ErrInvalidOffset) {
					fail("Delete(%v) failed merely because of concurrent activity: %v", sortedOffsets(set), err)
					return
				}
				for _, x := range del {
					if _, ok := set[x.Offset]; !ok {
						fail("Delete(%v) reported unrequested offset %d", sortedOffsets(set), x.Offset)
					}
					if _, dup := deleted.LoadOrStore(x.Offset, true); dup {
						fail("offset %d reported deleted twice", x.Offset)
					}
					if x.Offset >= n-2 {
						headDeletes.Add(1)
					}
				}
				if rnd.Intn(3) == 0 {
					time.Sleep(time.Duration(rnd.Intn(300)) * time.Microsecond)
				}
			}
		}(d)
	}
	for c := 0; c < r.Readers; c++ {
		wg.Add(1)
		go func(c int) {
			defer wg.Done()
			rnd := rand.New(rand.NewSource(r.Seed*100 + 80 + int64(c)))
			seen := map[int64]string{}
			off := klevdb.OffsetOldest
			for !stopped() {
				no, msgs, err := l.Consume(off, int64(1+rnd.Intn(5)))
				calls.Add(1)
				if err != nil {
					fail("Consume(%d) failed: %v", off, err)
					return
				}
				prev := off
				for _, m := range msgs {
					if v, ok := seen[m.Offset]; ok && v != string(m.Value) {
						fail("message %d changed: %q then %q", m.Offset, v, m.Value)
					}
					seen[m.Offset] = string(m.Value)
					if v, ok := published.Load(m.Offset); ok && v.(string) != string(m.Value) {
						fail("message %d differs from what was published", m.Offset)
					}
					if prev >= 0 {
						if m.Offset < prev {
							fail("Consume(%d) returned offset %d below the cursor", off, m.Offset)
						}
						for g := prev; g < m.Offset; g++ {
							gaps.Store(g, true)
							gapCount.Add(1)
						}
					}
					prev = m.Offset + 1
				}
				if off >= 0 {
					if no < off {
						fail("cursor went backwards: Consume(%d) -> %d", off, no)
					}
					for g := prev; g < no; g++ {
						gaps.Store(g, true)
						gapCount.Add(1)
					}
				}
				off = no
				if rnd.Intn(40) == 0 {
					off = klevdb.OffsetOldest // rescan: everything seen before must be identical or reported deleted
				}
				if c%2 == 1 {
					k := winKeys[rnd.Intn(len(winKeys))]
					if g, err := l.GetByKey(k); err == nil {
						if !bytes.Equal(g.Key, k) {
							fail("GetByKey(%s) returned key %s", hexs(k), hexs(g.Key))
						}
					} else if !errors.Is(err, klevdb.ErrNotFound) {
						fail("GetByKey failed: %v", err)
					}
					if g, err := l.Get(klevdb.OffsetNewest); err != nil && !errors.Is(err, klevdb.ErrInvalidOffset) && !errors.Is(err, klevdb.ErrNotFound) {
						fail("Get(OffsetNewest) failed: %v (%d)", err, g.Offset)
					}
					if _, err := l.GetByTime(time.UnixMicro(int64(1000 + rnd.Intn(50)))); err != nil && !errors.Is(err, klevdb.ErrNotFound) && !errors.Is(err, klevdb.ErrInvalidOffset) {
						fail("GetByTime failed: %v", err)
					}
					if _, ms, err := l.ConsumeByKey(k, klevdb.OffsetOldest, 3); err != nil {
						fail("ConsumeByKey failed: %v", err)
					} else {
						for _, m := range ms {
							if !bytes.Equal(m.Key, k) {
								fail("ConsumeByKey(%s) returned key %s", hexs(k), hexs(m.Key))
							}
						}
					}
					if n := int64(len(seen)); n > 0 {
						o := int64(rnd.Intn(int(n) + 2))
						if g, err := l.Get(o); err == nil {
							if v, ok := seen[o]; ok && v != string(g.Value) {
								fail("Get(%d) returned %q, Consume had shown %q", o, g.Value, v)
							}
						} else if !errors.Is(err, klevdb.ErrNotFound) && !errors.Is(err, klevdb.ErrInvalidOffset) {
							fail("Get(%d) failed: %v", o, err)
						}
					}
					calls.Add(5)
				}
			}
		}(c)
	}
	wg.Add(1)
	go func() {
		defer wg.Done()
		for !stopped() {
			if err := l.GC(0); err != nil {
				fail("GC failed: %v", err)
			}
			if _, err := l.Stat(); err != nil {
				fail("Stat failed: %v", err)
			}
			if _, err := l.Sync(); err != nil {
				fail("Sync failed: %v", err)
			}
			calls.Add(3)
			time.Sleep(150 * time.Microsecond)
		}
	}()
	time.Sleep(time.Duration(r.MS) * time.Millisecond)
	close(stop)
	wg.Wait()
	verifhook.SetPause(nil)
	// quiescent: the final content is exactly published minus reported deleted
	final, err := scanLog(l)
	if err != nil {
		fail("final scan failed: %v", err)
		if segs, serr := ReadSegs(dir); serr == nil {
			desc := ""
			for _, sg := range segs {
				lo, hi := int64(-1), int64(-1)
				if len(sg.Recs) > 0 {
					lo, hi = sg.Recs[0].Off, sg.Recs[len(sg.Recs)-1].Off
				}
				desc += fmt.Sprintf(" [base %d: %d recs %d..%d v2=%v idx=%v]", sg.Base, len(sg.Recs), lo, hi, sg.V2, sg.HasIdx)
			}
			fail("segments at the end:%s", desc)
		}
	}
	present := map[int64]string{}
	for _, m := range final {
		present[m.Offset] = string(m.Value)
	}
	var pubOffs []int64
	published.Range(func(k, v any) bool {
		o := k.(int64)
		pubOffs = append(pubOffs, o)
		_, del := deleted.Load(o)
		pv, ok := present[o]
		switch {
		case del && ok:
			fail("offset %d was reported deleted but is still in the log", o)
		case !del && !ok:
			fail("offset %d disappeared without any Delete reporting it", o)
		case ok && pv != v.(string):
			fail("offset %d holds %q, published %q", o, pv, v)
		}
		return true
	})
	sort.Slice(pubOffs, func(i, j int) bool { return pubOffs[i] < pubOffs[j] })
	for i, o := range pubOffs {
		if o != int64(i) {
			fail("published offsets are not dense: position %d holds offset %d", i, o)
			break
		}
	}
	for o := range present {
		if _, ok := published.Load(o); !ok {
			fail("offset %d is in the log but no Publish returned it", o)
		}
	}
	ndel := 0
	deleted.Range(func(k, v any) bool { ndel++; return true })
	gaps.Range(func(k, v any) bool {
		if _, ok := deleted.Load(k.(int64)); !ok {
			fail("a reader stepped over offset %d which no Delete reported", k.(int64))
		}
		return true
	})
	if names, err := listLogs(dir); err == nil {
		res.Rollovers = len(names)
	}
	if err := l.Close(); err != nil {
		fail("Close failed: %v", err)
	}
	res.Calls = calls.Load()
	res.HeadDeletes = headDeletes.Load()
	res.Deleted = ndel
	res.Published = len(pubOffs)
	res.GapsObserved = gapCount.Load()
	return res
}

// runDuet: two goroutines only, each repeating one kind of call. With few goroutines the race detector's
// per-address history (4 accesses) still holds the conflicting access when the racy one happens; in the
// full mix it is usually evicted by the many properly locked readers.
func runDuet(seed int64, a, b string, keep bool, ms int) []string {
	dir := MkScratch("vf-duet-")
	defer os.RemoveAll(dir)
	opts := klevdb.Options{KeyIndex: true, TimeIndex: true, Rollover: 120, AutoSync: seed%2 == 0}
	if a == "publish-big" || b == "publish-big" {
		// records of several pages: an append is not one indivisible step for a concurrent reader of the file
		opts.Rollover = 1 << 17
		opts.AutoSync = false
	}
	opts.Version.KeepRewriteVersion = keep
	l, err := klevdb.Open(dir, opts)
	if err != nil {
		return []string{"open: " + err.Error()}
	}
	defer l.Close()
	var pc atomic.Int64
	if os.Getenv("VF_NO_PAUSE_SLEEPS") == "" {
		verifhook.SetPause(func(p string) {
			if n := pc.Add(1); strings.HasPrefix(p, "delete.") || strings.HasPrefix(p, "publish.rollover.") || strings.HasPrefix(p, "reader.") {
				time.Sleep(time.Duration(50+n%250) * time.Microsecond)
			}
		})
		defer verifhook.SetPause(nil)
	}
	var fails []string
	var mu sync.Mutex
	fail := func(f string, args ...any) {
		mu.Lock()
		if len(fails) < 10 {
			fails = append(fails, fmt.Sprintf(f, args...))
		}
		mu.Unlock()
	}
	stop := make(chan struct{})
	run := func(kind string, id int64) {
		rnd := rand.New(rand.NewSource(seed*10 + id))
		for i := 0; ; i++ {
			select {
			case <-stop:
				return
			default:
			}
			okErr := func(err error) bool {
				return err == nil || errors.Is(err, klevdb.ErrNotFound) || errors.Is(err, klevdb.ErrInvalidOffset)
			}
			switch kind {
			case "publish":
				n := 1 + rnd.Intn(3)
				msgs := make([]klevdb.Message, n)
				for j := range msgs {
					msgs[j] = klevdb.Message{Time: time.UnixMicro(int64(1000 + i)), Key: winKeys[rnd.Intn(len(winKeys))], Value: []byte(fmt.Sprintf("d%d-%d", i, j))}
				}
				if _, err := l.Publish(msgs); err != nil {
					fail("Publish: %v", err)
				}
			case "publish-big":
				val := make([]byte, []int{3000, 9000, 70000}[rnd.Intn(3)])
				if _, err := l.Publish([]klevdb.Message{{Time: time.UnixMicro(int64(1000 + i)), Key: winKeys[rnd.Intn(len(winKeys))], Value: val}}); err != nil {
					fail("Publish: %v", err)
				}
			case "delete-head", "delete-any":
				n, _ := l.NextOffset()
				if n < 1 {
					continue
				}
				o := n - 1
				if kind == "delete-any" {
					o = int64(rnd.Intn(int(n)))
				}
				if _, _, err := l.Delete(map[int64]struct{}{o: {}}); !okErr(err) {
					fail("Delete(%d): %v", o, err)
				}
			case "consume":
				n, _ := l.NextOffset()
				if _, _, err := l.Consume(int64(rnd.Intn(int(n)+1)), 4); err != nil {
					fail("Consume: %v", err)
				}
			case "lookups":
				if _, err := l.GetByKey(winKeys[rnd.Intn(len(winKeys))]); !okErr(err) {
					fail("GetByKey: %v", err)
				}
				if _, err := l.GetByTime(time.UnixMicro(int64(1000 + rnd.Intn(i+1)))); !okErr(err) {
					fail("GetByTime: %v", err)
				}
				if _, err := l.Get(klevdb.OffsetNewest); !okErr(err) {
					fail("Get(newest): %v", err)
				}
			case "gc":
				if err := l.GC(0); err != nil {
					fail("GC: %v", err)
				}
				time.Sleep(100 * time.Microsecond)
			case "admin":
				if _, err := l.Stat(); err != nil {
					fail("Stat: %v", err)
				}
				if _, err := l.Sync(); err != nil {
					fail("Sync: %v", err)
				}
				if _, err := l.NextOffset(); err != nil {
					fail("NextOffset: %v", err)
				}
			}
		}
	}
	// something to work on
	for i := 0; i < 20; i++ {
		_, _ = l.Publish([]klevdb.Message{{Time: time.UnixMicro(int64(900 + i)), Key: winKeys[i%len(winKeys)], Value: []byte("seed")}})
	}
	var wg sync.WaitGroup
	for i, k := range []string{a, b} {
		wg.Add(1)
		go func(k string, id int64) {
			defer wg.Done()
			run(k, id)
		}(k, int64(i))
	}
	time.Sleep(time.Duration(ms) * time.Millisecond)
	close(stop)
	wg.Wait()
	if _, err := scanLog(l); err != nil {
		fail("final scan: %v", err)
	}
	return fails
}

var duetPairs = [][2]string{{"delete-head", "publish-big"}, {"consume", "publish-big"}, {"delete-head", "publish"}, {"delete-any", "publish"}, {"publish", "gc"}, {"consume", "delete-any"}, {"consume", "gc"},
	{"lookups", "publish"}, {"lookups", "delete-any"}, {"admin", "publish"}, {"admin", "delete-head"}, {"gc", "delete-any"}, {"publish", "publish"}, {"delete-any", "delete-head"}}

func TestC08Duets(t *testing.T) {
	st := NewStats("C08")
	defer st.Write()
	seed := int64(envInt("VF_SEED", 1))
	shard, shards := envInt("VF_SHARD", 0), envInt("VF_SHARDS", 1)
	ms := 250
	if thoroughTier() {
		ms = 1500
	}
	for i, pr := range duetPairs {
		if i%shards != shard {
			continue
		}
		for ki, keep := range []bool{true, false} {
			// seed parity selects AutoSync; alternate it with KeepRewriteVersion so all four mixes occur over runs
			fails := runDuet((seed+int64(i))*2+int64((ki+int(seed))%2), pr[0], pr[1], keep, ms)
			st.Eval(1)
			st.NonTrivialStr(fmt.Sprintf("duet|%s|%s|%v", pr[0], pr[1], keep))
			st.Inc("duets")
			if len(fails) > 0 {
				v := &Violation{Oracle: "history", Msg: fmt.Sprintf("duet %s || %s (keep=%v): %v", pr[0], pr[1], keep, fails)}
				path := WriteReplay("C08", "stress", v, map[string]any{"duet": pr, "keep": keep, "failures": fails})
				fmt.Printf("%v\nVIOLATION property=C08 replay=%s\n", v, path)
				t.FailNow()
			}
		}
	}
}

// TestC08BigAppends: appends of several pages against calls that read the head's file (a Delete of the newest message
// rewrites the head; a Consume reads it). Runs on the plain binary at full speed: what matters is that a reader looks
// at the file while the kernel is still copying an append into it.
func TestC08BigAppends(t *testing.T) {
	st := NewStats("C08")
	defer st.Write()
	seed := int64(envInt("VF_SEED", 1))
	shard := envInt("VF_SHARD", 0)
	ms := 1200
	if thoroughTier() {
		ms = 4000
	}
	t.Setenv("VF_NO_PAUSE_SLEEPS", "1")
	pairs := [][2]string{{"delete-head", "publish-big"}, {"consume", "publish-big"}, {"delete-any", "publish-big"}, {"lookups", "publish-big"}}
	pr := pairs[shard%len(pairs)]
	fails := runDuet(seed*4+int64(shard), pr[0], pr[1], shard%2 == 0, ms)
	st.Eval(1)
	st.NonTrivialStr(fmt.Sprintf("bigappends|%s|%s|%d", pr[0], pr[1], shard))
	st.Inc("big_append_duets")
	if len(fails) > 0 {
		v := &Violation{Oracle: "history", Msg: fmt.Sprintf("%s || %s with records of several pages: %v", pr[0], pr[1], fails)}
		path := WriteReplay("C08", "stress", v, map[string]any{"duet": pr, "failures": fails})
		fmt.Printf("%v\nVIOLATION property=C08 replay=%s\n", v, path)
		t.FailNow()
	}
}

func TestC08Stress(t *testing.T) {
	st := NewStats("C08")
	defer st.Write()
	seed := int64(envInt("VF_SEED", 1))
	rounds := envInt("VF_CASES", 3)
	ms := 1200
	if thoroughTier() {
		ms = 4000
	}
	for i := 0; i < rounds; i++ {
		rnd := rand.New(rand.NewSource(seed + int64(i)*7919))
		r := stressRound{Seed: seed + int64(i)*7919, Rollover: int64(100 + 100*rnd.Intn(4)), Keep: rnd.Intn(3) != 0, V1: rnd.Intn(4) == 0,
			Pubs: 1 + rnd.Intn(3), Dels: 1 + rnd.Intn(2), Readers: 1 + rnd.Intn(3), MS: ms}
		res := runStressRound(r)
		st.Eval(res.Calls)
		st.Add("stress_rounds", 1)
		st.Add("stress_published", int64(res.Published))
		st.Add("stress_deleted", int64(res.Deleted))
		st.Add("stress_gaps_observed_by_readers", res.GapsObserved)
		if res.Rollovers >= 2 && res.HeadDeletes > 0 {
			st.NonTrivial(mustJSON(r))
			st.Inc("stress_rounds_with_rollover_and_head_delete")
		}
		if st.WantSample() {
			st.Sample(map[string]any{"round": r, "result": res})
		}
		if len(res.Failures) > 0 {
			v := &Violation{Oracle: "history", Msg: fmt.Sprintf("free-running round %+v: %v", r, res.Failures)}
			path := WriteReplay("C08", "stress", v, map[string]any{"round": r, "result": res, "note": "free-running schedule: not reproducible by construction; this file is the recorded evidence"})
			fmt.Printf("%v\nVIOLATION property=C08 replay=%s\n", v, path)
			t.FailNow()
		}
	}
}

// TestC08TailRace: reads at the very tail of the log against a publisher, at full speed on the plain binary, with no
// deletes anywhere - so every message is live for ever and the sequential contract leaves each read exactly two
// admissible answers (before or after the publish). The windows these races live in are a few instructions wide and
// have no pause point; what the test owns instead is the number of attempts (one fresh log per round, many rounds).
func TestC08TailRace(t *testing.T) {
	st := NewStats("C08")
	defer st.Write()
	seed := int64(envInt("VF_SEED", 1))
	shard := envInt("VF_SHARD", 0)
	rounds := 800
	if thoroughTier() {
		rounds = 8000
	}
	root := MkScratch("vf-tail-")
	defer os.RemoveAll(root)
	var fails []string
	var mu sync.Mutex
	fail := func(f string, args ...any) {
		mu.Lock()
		if len(fails) < 6 {
			fails = append(fails, fmt.Sprintf(f, args...))
		}
		mu.Unlock()
	}
	for r := 0; r < rounds && len(fails) == 0; r++ {
		dir := filepath.Join(root, fmt.Sprintf("r%d", r))
		opts := klevdb.Options{CreateDirs: true, KeyIndex: true, TimeIndex: true, Rollover: int64([]int{1 << 20, 200, 90}[(r+shard)%3])}
		if (seed+int64(r))%5 == 0 {
			opts.Version.NewSegmentsVersion = klevdb.V1
		}
		l, err := klevdb.Open(dir, opts)
		if err != nil {
			t.Fatalf("open: %v", err)
		}
		// half of the rounds start from a log whose head has just been emptied by a delete of everything
		pre := int64(0)
		if r%2 == 1 {
			for i := 0; i < 3; i++ {
				pre, _ = l.Publish([]klevdb.Message{{Time: time.UnixMicro(int64(10 + i)), Key: []byte("p"), Value: []byte("x")}})
			}
			set := map[int64]struct{}{}
			for o := int64(0); o < pre; o++ {
				set[o] = struct{}{}
			}
			for len(set) > 0 {
				del, _, err := l.Delete(set)
				if err != nil || len(del) == 0 {
					break
				}
				for _, d := range del {
					delete(set, d.Offset)
				}
			}
		}
		const N = 40
		var wg sync.WaitGroup
		var done atomic.Bool
		wg.Add(1)
		go func() {
			defer wg.Done()
			for i := 0; i < N; i++ {
				if _, err := l.Publish([]klevdb.Message{{Time: time.UnixMicro(int64(100 + i)), Key: []byte(fmt.Sprintf("k%d", i)), Value: []byte("v")}}); err != nil {
					fail("Publish: %v", err)
				}
			}
			done.Store(true)
		}()
		kinds := []string{"get-next", "consume-oldest", "consume-next", "getbykey-next", "next-offset"}
		for ki := 0; ki < 2; ki++ {
			kind := kinds[(r+shard+ki*2)%len(kinds)]
			wg.Add(1)
			go func(kind string) {
				defer wg.Done()
				n := pre // the next offset this reader has not seen published yet
				var lastNext int64
				for !done.Load() || n < pre+N {
					if n >= pre+N {
						return
					}
					switch kind {
					case "get-next":
						g, err := l.Get(n)
						switch {
						case err == nil && g.Offset == n:
							n++
						case errors.Is(err, klevdb.ErrInvalidOffset):
						default:
							fail("Get(%d) of an offset that is being assigned (nothing is ever deleted after offset %d) returned offset %d, %v; only the message or ErrInvalidOffset are possible", n, pre, g.Offset, err)
							return
						}
					case "consume-oldest":
						no, msgs, err := l.Consume(klevdb.OffsetOldest, 4)
						switch {
						case err != nil:
							fail("Consume(OffsetOldest): %v", err)
							return
						case len(msgs) > 0 && msgs[0].Offset != pre:
							fail("Consume(OffsetOldest) started at offset %d, the oldest live message is %d", msgs[0].Offset, pre)
							return
						case len(msgs) == 0 && no != pre:
							fail("Consume(OffsetOldest) returned no messages and next offset %d: it stepped over live messages from %d on (nothing after %d is ever deleted)", no, pre, pre)
							return
						case len(msgs) > 0:
							n = pre + N // this reader has seen what it came for; keep the publisher company with cheap polls
							for !done.Load() {
								if no2, m2, err := l.Consume(klevdb.OffsetOldest, 1); err != nil || len(m2) != 1 || m2[0].Offset != pre || no2 != pre+1 {
									fail("Consume(OffsetOldest,1) -> %d,%v,%v want message %d", no2, msgOffsets(m2), err, pre)
									return
								}
							}
						}
					case "consume-next":
						no, msgs, err := l.Consume(n, 3)
						switch {
						case errors.Is(err, klevdb.ErrInvalidOffset):
							// n is beyond NextOffset only if n was never reached: n starts at NextOffset
							fail("Consume(%d) at or below NextOffset failed: %v", n, err)
							return
						case err != nil:
							fail("Consume(%d): %v", n, err)
							return
						case len(msgs) == 0 && no != n:
							fail("Consume(%d) returned nothing and next offset %d", n, no)
							return
						case len(msgs) > 0:
							for i, m := range msgs {
								if m.Offset != n+int64(i) {
									fail("Consume(%d) returned offsets %v (no message is ever deleted here)", n, msgOffsets(msgs))
									return
								}
							}
							if no != n+int64(len(msgs)) {
								fail("Consume(%d) returned %v and next offset %d", n, msgOffsets(msgs), no)
								return
							}
							n = no
						}
					case "getbykey-next":
						g, err := l.GetByKey([]byte(fmt.Sprintf("k%d", n-pre)))
						switch {
						case err == nil && g.Offset == n:
							n++
						case errors.Is(err, klevdb.ErrNotFound):
						default:
							fail("GetByKey(k%d) returned offset %d, %v; the key is published once, at offset %d", n-pre, g.Offset, err, n)
							return
						}
					case "next-offset":
						no, err := l.NextOffset()
						if err != nil || no < lastNext || no > pre+N {
							fail("NextOffset -> %d,%v after %d", no, err, lastNext)
							return
						}
						lastNext = no
						if no == pre+N {
							return
						}
					}
				}
			}(kind)
		}
		wg.Wait()
		_ = l.Close()
		_ = os.RemoveAll(dir)
		st.Eval(1)
		st.Inc("tail_race_rounds")
	}
	st.NonTrivialStr(fmt.Sprintf("tailrace|%d|%d", shard, seed))
	if len(fails) > 0 {
		v := &Violation{Oracle: "history", Msg: fmt.Sprintf("reads at the tail racing a publisher (no deletes): %v", fails)}
		path := WriteReplay("C08", "stress", v, map[string]any{"tail_race": true, "failures": fails})
		fmt.Printf("%v\nVIOLATION property=C08 replay=%s\n", v, path)
		t.FailNow()
	}
}

// A free-running schedule cannot be replayed; what can be repeated is the attempt. Replaying a "stress" file runs
// the job kind that produced it again for a few seconds and reports a violation only if one shows again.
type stressReplay struct {
	Duet     []string     `json:"duet"`
	Keep     bool         `json:"keep"`
	TailRace bool         `json:"tail_race"`
	Round    *stressRound `json:"round"`
}

func init() {
	registerReplay("stress", func(c *stressReplay, st *Stats) {
		switch {
		case len(c.Duet) == 2:
			for i := int64(0); i < 4; i++ {
				if fails := runDuet(11+i, c.Duet[0], c.Duet[1], c.Keep, 1500); len(fails) > 0 {
					cfail("history", "duet %s || %s again: %v", c.Duet[0], c.Duet[1], fails)
				}
			}
		case c.Round != nil:
			r := *c.Round
			for i := 0; i < 3; i++ {
				res := runStressRound(r)
				if len(res.Failures) > 0 {
					cfail("history", "stress round again: %v", res.Failures)
				}
				r.Seed++
			}
		default:
			fmt.Println("[replay] a tail-race or unspecified stress record: run `verif.py check C08` to repeat the attempt")
		}
	})
}
