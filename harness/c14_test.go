package vf

// C14: a damaged record is never returned as data. Multi-segment V2 logs, one damage on one .log file
// (index files intact), then a fresh Open with default options and the whole read API, compared call by
// call with the same calls on the undamaged copy and with the model.

import (
	"bytes"
	"errors"
	"fmt"
	"os"
	"path/filepath"
	"runtime/metrics"
	"testing"
	"time"

	"github.com/klev-dev/klevdb"
	"pgregory.net/rapid"
)

type DmgAPICase struct {
	Rollover int64      `json:"rollover"`
	Msgs     []CodecMsg `json:"msgs"`
	Deletes  []int64    `json:"deletes"`
	Seed     uint64     `json:"seed"`
	Only     string     `json:"only,omitempty"`
}

var dmgKeys = [][]byte{[]byte("a"), []byte("b"), []byte("c"), collisionPairs[0][0], collisionPairs[0][1]}

func genDmgAPICase(t *rapid.T) *DmgAPICase {
	c := &DmgAPICase{Rollover: int64(pick(t, []int{100, 150, 250, 400}, "rollover")), Seed: rapid.Uint64().Draw(t, "seed")}
	n := 4 + uni(t, 11, "n")
	ts := int64(10)
	for i := 0; i < n; i++ {
		ts += int64(pick(t, []int{0, 0, 1, 2}, "dt"))
		vl := uni(t, 31, "vlen")
		m := CodecMsg{Off: int64(i), TS: ts, K: append([]byte{}, pick(t, dmgKeys, "key")...)}
		if vl > 0 {
			m.V = pattern(vl, byte(uni(t, 256, "vseed")))
		}
		c.Msgs = append(c.Msgs, m)
	}
	nd := uni(t, 4, "ndel")
	for i := 0; i < nd; i++ {
		c.Deletes = append(c.Deletes, int64(uni(t, n, "del")))
	}
	return c
}

type apiCall struct {
	kind string
	off  int64
	max  int64
	key  []byte
	ts   int64
}

func (c apiCall) String() string {
	switch c.kind {
	case "get":
		return fmt.Sprintf("Get(%d)", c.off)
	case "consume":
		return fmt.Sprintf("Consume(%d,%d)", c.off, c.max)
	case "getbykey":
		return fmt.Sprintf("GetByKey(%s)", hexs(c.key))
	case "consumebykey":
		return fmt.Sprintf("ConsumeByKey(%s,%d,%d)", hexs(c.key), c.off, c.max)
	case "getbytime":
		return fmt.Sprintf("GetByTime(%d)", c.ts)
	}
	return c.kind
}

type apiResult struct {
	err  error
	next int64
	msgs []klevdb.Message
}

func (c apiCall) run(l klevdb.Log) (r apiResult) {
	switch c.kind {
	case "get":
		m, err := l.Get(c.off)
		r.err = err
		if err == nil {
			r.msgs = []klevdb.Message{m}
		}
	case "consume":
		r.next, r.msgs, r.err = l.Consume(c.off, c.max)
	case "getbykey":
		m, err := l.GetByKey(c.key)
		r.err = err
		if err == nil {
			r.msgs = []klevdb.Message{m}
		}
	case "consumebykey":
		r.next, r.msgs, r.err = l.ConsumeByKey(c.key, c.off, c.max)
	case "getbytime":
		m, err := l.GetByTime(time.UnixMicro(c.ts))
		r.err = err
		if err == nil {
			r.msgs = []klevdb.Message{m}
		}
	}
	return r
}

func errClass(err error) string {
	switch {
	case err == nil:
		return "ok"
	case errors.Is(err, klevdb.ErrNotFound):
		return "notfound"
	case errors.Is(err, klevdb.ErrInvalidOffset):
		return "invalidoffset"
	case errors.Is(err, klevdb.ErrNoIndex):
		return "noindex"
	case errors.Is(err, klevdb.ErrReadonly):
		return "readonly"
	}
	return "other"
}

func sameResult(a, b apiResult) bool {
	if errClass(a.err) != errClass(b.err) || len(a.msgs) != len(b.msgs) {
		return false
	}
	if a.err == nil && a.next != b.next {
		return false
	}
	for i := range a.msgs {
		if !FromMessage(a.msgs[i]).Eq(b.msgs[i]) {
			return false
		}
	}
	return true
}

var allocSample = []metrics.Sample{{Name: "/gc/heap/allocs:bytes"}}

func allocBytes() uint64 {
	metrics.Read(allocSample)
	return allocSample[0].Value.Uint64()
}

type apiDamage struct {
	desc      string
	seg       int
	data      []byte
	overwrite bool
	damaged   map[int64]bool // offsets of records whose bytes changed
	field     string
}

func recField(r RRec, pos int64) string {
	rel := pos - r.Pos
	kl, vl := int64(len(r.Key)), int64(len(r.Val))
	switch {
	case rel < 4:
		return "crc"
	case rel < 12:
		return "offset"
	case rel < 20:
		return "time"
	case rel < 24:
		return "keylen"
	case rel < 28:
		return "vallen"
	case rel < 28+kl:
		return "key"
	case rel < 28+kl+vl:
		return "value"
	}
	return "trailer"
}

func xorshift(x *uint64) uint64 {
	*x ^= *x << 13
	*x ^= *x >> 7
	*x ^= *x << 17
	return *x
}

func runDmgAPICase(c *DmgAPICase, st *Stats) {
	root := MkScratch("vf-c14-")
	defer os.RemoveAll(root)
	dir := filepath.Join(root, "log")
	work := filepath.Join(root, "work")
	_ = os.MkdirAll(dir, 0700)
	opts := klevdb.Options{KeyIndex: true, TimeIndex: true, Rollover: c.Rollover}
	l, err := klevdb.Open(dir, opts)
	if err != nil {
		cfail("err", "open: %v", err)
	}
	m := NewModel()
	for _, x := range c.Msgs {
		if _, err := l.Publish([]klevdb.Message{{Time: time.UnixMicro(x.TS), Key: x.K, Value: x.V}}); err != nil {
			cfail("err", "publish: %v", err)
		}
		m.Append(Msg{Off: x.Off, TS: x.TS, K: x.K, V: x.V})
	}
	for _, d := range c.Deletes {
		del, _, err := l.Delete(map[int64]struct{}{d: {}})
		if err != nil && !errors.Is(err, klevdb.ErrNotFound) {
			cfail("err", "delete: %v", err)
		}
		for _, x := range del {
			m.Remove(x.Offset)
		}
	}
	if err := l.Close(); err != nil {
		cfail("err", "close: %v", err)
	}
	files := snapshotDir(dir)
	segs, err := ReadSegs(dir)
	if err != nil {
		cfail("err", "read segments: %v", err)
	}
	for _, s := range segs {
		if !s.Clean || !(s.V2 || s.Empty) {
			cfail("err", "segment %d not a clean V2 file", s.Base)
		}
	}
	if len(segs) >= 2 {
		st.Inc("multi_segment_logs")
	}
	// the calls
	var calls []apiCall
	for o := int64(0); o <= m.Next+1; o++ {
		calls = append(calls, apiCall{kind: "get", off: o})
	}
	calls = append(calls, apiCall{kind: "get", off: klevdb.OffsetOldest}, apiCall{kind: "get", off: klevdb.OffsetNewest})
	for o := int64(-2); o <= m.Next; o++ {
		calls = append(calls, apiCall{kind: "consume", off: o, max: []int64{1, 3, 100}[int(o+2)%3]})
	}
	for ki, k := range append(append([][]byte{}, dmgKeys...), []byte("zz")) {
		calls = append(calls, apiCall{kind: "getbykey", key: k})
		calls = append(calls, apiCall{kind: "consumebykey", key: k, off: klevdb.OffsetOldest, max: 100})
		for o := int64(ki % 2); o <= m.Next; o += 2 {
			calls = append(calls, apiCall{kind: "consumebykey", key: k, off: o, max: []int64{1, 10}[int(o/2)%2]})
		}
	}
	for q := m.MinT - 1; q <= m.MaxT+1; q++ {
		calls = append(calls, apiCall{kind: "getbytime", ts: q})
	}
	// pristine answers
	restoreDir(work, files)
	pl, err := klevdb.Open(work, opts)
	if err != nil {
		cfail("err", "open pristine copy: %v", err)
	}
	pristine := make([]apiResult, len(calls))
	for i, cl := range calls {
		pristine[i] = cl.run(pl)
		for _, g := range pristine[i].msgs {
			if x, ok := m.Find(g.Offset); !ok || !x.Eq(g) {
				_ = pl.Close()
				cfail("err", "undamaged log: %v returned %+v which the model does not hold", cl, FromMessage(g))
			}
		}
	}
	_ = pl.Close()

	// enumerate damages
	thorough := thoroughTier()
	rng := c.Seed | 1
	var dmgs []apiDamage
	add := func(d apiDamage) {
		if c.Only == "" || c.Only == d.desc {
			dmgs = append(dmgs, d)
		}
	}
	for si, sg := range segs {
		orig := files[sg.Name+".log"]
		if len(orig) <= 8 {
			continue
		}
		recAt := func(pos int64) *RRec {
			for i := range sg.Recs {
				if pos >= sg.Recs[i].Pos && pos < sg.Recs[i].End {
					return &sg.Recs[i]
				}
			}
			return nil
		}
		flip := func(pos int, bit uint) {
			nb := append([]byte{}, orig...)
			nb[pos] ^= 1 << bit
			r := recAt(int64(pos))
			add(apiDamage{desc: fmt.Sprintf("flip seg%d@%d bit%d", si, pos, bit), seg: si, data: nb, overwrite: true, damaged: map[int64]bool{r.Off: true}, field: recField(*r, int64(pos))})
		}
		over := func(pos, ln int) {
			nb := append([]byte{}, orig...)
			dm := map[int64]bool{}
			field := ""
			for j := pos; j < pos+ln && j < len(nb); j++ {
				nv := byte(xorshift(&rng))
				if nv == nb[j] {
					nv ^= 0x5A
				}
				nb[j] = nv
				r := recAt(int64(j))
				dm[r.Off] = true
				if field == "" {
					field = recField(*r, int64(j))
				}
			}
			add(apiDamage{desc: fmt.Sprintf("over seg%d@%d len%d", si, pos, ln), seg: si, data: nb, overwrite: true, damaged: dm, field: field})
		}
		cut := func(at int) {
			add(apiDamage{desc: fmt.Sprintf("cut seg%d@%d", si, at), seg: si, data: append([]byte{}, orig[:at]...), field: "cut"})
			nb := append([]byte{}, orig...)
			for j := at; j < len(nb); j++ {
				nb[j] = 0
			}
			add(apiDamage{desc: fmt.Sprintf("zerotail seg%d@%d", si, at), seg: si, data: nb, field: "zerotail"})
		}
		if thorough {
			for pos := 8; pos < len(orig); pos++ {
				for b := uint(0); b < 8; b++ {
					flip(pos, b)
				}
				over(pos, 1+int(xorshift(&rng)%8))
				cut(pos)
			}
		} else {
			for _, r := range sg.Recs {
				// one position in every field of every record
				fieldStarts := []int64{0, 4, 12, 20, 24}
				fieldLens := []int64{4, 8, 8, 4, 4}
				if len(r.Key) > 0 {
					fieldStarts, fieldLens = append(fieldStarts, 28), append(fieldLens, int64(len(r.Key)))
				}
				if len(r.Val) > 0 {
					fieldStarts, fieldLens = append(fieldStarts, 28+int64(len(r.Key))), append(fieldLens, int64(len(r.Val)))
				}
				fieldStarts, fieldLens = append(fieldStarts, r.End-r.Pos-8), append(fieldLens, 8)
				for fi := range fieldStarts {
					pos := int(r.Pos + fieldStarts[fi] + int64(xorshift(&rng)%uint64(fieldLens[fi])))
					flip(pos, uint(xorshift(&rng)%8))
					if fi%2 == 0 {
						over(pos, 1+int(xorshift(&rng)%8))
					}
				}
				// high bits of the length fields (huge allocations if unchecked)
				flip(int(r.Pos+20), 6)
				flip(int(r.Pos+24), 5)
				for _, at := range []int64{r.Pos, r.Pos + 1, r.Pos + 27, r.Pos + 28, r.End - 1} {
					if at >= 8 && at < int64(len(orig)) {
						cut(int(at))
					}
				}
			}
		}
	}

	for _, d := range dmgs {
		st.Eval(1)
		if v := protect(func() { tryAPIDamage(c, st, m, opts, files, segs, work, calls, pristine, d) }); v != nil {
			v.Msg = fmt.Sprintf("damage %q: %s", d.desc, v.Msg)
			c.Only = d.desc
			panic(v)
		}
	}
}

// coveringSeg is the segment whose base is the largest one <= off (the first segment for smaller offsets).
func coveringSeg(segs []SegInfo, off int64) int {
	if off == klevdb.OffsetNewest {
		return len(segs) - 1
	}
	idx := 0
	for i := range segs {
		if segs[i].Base <= off {
			idx = i
		}
	}
	return idx
}

func tryAPIDamage(c *DmgAPICase, st *Stats, m *Model, opts klevdb.Options, files map[string][]byte, segs []SegInfo, work string, calls []apiCall, pristine []apiResult, d apiDamage) {
	restoreDir(work, files)
	path := filepath.Join(work, segs[d.seg].Name+".log")
	// a quarter of the in-place overwrites hit the file while a handle is open that has already read (and verified)
	// every record once: "overwritten in place after it was written" does not wait for a Close
	live := d.overwrite && len(d.data) == len(files[segs[d.seg].Name+".log"]) && (len(d.desc)+d.seg)%4 == 1
	if !live {
		_ = os.WriteFile(path, d.data, 0600)
	}
	l, err := klevdb.Open(work, opts)
	if err != nil {
		st.Inc("open_failed")
		return
	}
	defer l.Close()
	if live {
		for _, cl := range calls {
			cl.run(l)
		}
		f, err := os.OpenFile(path, os.O_WRONLY, 0)
		if err != nil {
			panic(err)
		}
		if _, err := f.WriteAt(d.data, 0); err != nil {
			panic(err)
		}
		_ = f.Close()
		st.Inc("overwrites_applied_under_an_open_handle_that_had_read_everything")
	}
	role := "nonhead"
	if d.seg == len(segs)-1 {
		role = "head"
	}
	st.NonTrivialStr(fmt.Sprintf("%x|%s|%s|%s", sha8(mustJSON(c.Msgs)), d.desc, d.field, role))
	st.Inc("field." + d.field + "." + role)
	if st.WantSample() {
		st.Sample(map[string]any{"log": c, "damage": d.desc, "field": d.field, "segment_role": role})
	}
	hashHit := func(k []byte, si int) bool {
		h := RefFNV1a64(k)
		for _, r := range segs[si].Recs {
			if RefFNV1a64(r.Key) == h {
				return true
			}
		}
		return false
	}
	for ci, cl := range calls {
		a0 := allocBytes()
		got := cl.run(l)
		// "out of proportion to the file": four times the reader's documented 64 MiB sanity bound, per call
		if da := allocBytes() - a0; da > 256<<20 {
			cfail("alloc", "%v allocated %d MiB", cl, da>>20)
		}
		st.Inc("calls")
		// safety: nothing that differs from what was published at that offset
		for _, g := range got.msgs {
			if x, ok := m.Find(g.Offset); !ok || !x.Eq(g) {
				cfail("safety", "%v returned %+v; published at that offset: %+v (live=%v)", cl, FromMessage(g), x, ok)
			}
			if (cl.kind == "getbykey" || cl.kind == "consumebykey") && !bytes.Equal(g.Key, cl.key) {
				cfail("safety", "%v returned a message with key %s", cl, hexs(g.Key))
			}
		}
		want := pristine[ci]
		if d.overwrite {
			hit := false
			for _, g := range want.msgs {
				if d.damaged[g.Offset] {
					hit = true
				}
			}
			if hit {
				st.Inc("mustfail_checks")
				if got.err == nil {
					cfail("mustfail", "%v: the undamaged answer %v includes an overwritten record (offsets %v) but the call succeeded with %v", cl, msgOffsets(want.msgs), keysOf(d.damaged), msgOffsets(got.msgs))
				}
				continue
			}
		}
		// unchanged: calls answered entirely from other segment files
		other := false
		ansSegs := map[int]bool{}
		for _, g := range want.msgs {
			ansSegs[SegOf(segs, g.Offset)] = true
		}
		switch cl.kind {
		case "get":
			cs := coveringSeg(segs, cl.off)
			if cl.off == klevdb.OffsetOldest {
				cs = 0
			}
			other = cs != d.seg && !ansSegs[d.seg] && cl.off >= 0
		case "consume":
			cs := coveringSeg(segs, cl.off)
			if cl.off == klevdb.OffsetOldest {
				cs = 0
			}
			other = cs != d.seg && !ansSegs[d.seg]
		case "getbykey":
			if want.err == nil {
				// segments older than the one holding the answer are never touched
				other = d.seg < SegOf(segs, want.msgs[0].Offset)
			} else {
				other = !hashHit(cl.key, d.seg)
			}
		case "consumebykey":
			cs := coveringSeg(segs, cl.off)
			if cl.off == klevdb.OffsetOldest {
				cs = 0
			}
			if d.seg < cs {
				other = true
			} else if !hashHit(cl.key, d.seg) {
				other = true
			} else if len(want.msgs) > 0 && d.seg > SegOf(segs, want.msgs[len(want.msgs)-1].Offset) {
				other = true
			}
		case "getbytime":
			other = want.err == nil && d.seg < SegOf(segs, want.msgs[0].Offset)
		}
		// (the property states this for in-place overwrites; a cut changes the file length and with it
		// what the head segment knows about NextOffset)
		if other && d.overwrite {
			st.Inc("unchanged_checks")
			if !sameResult(want, got) {
				cfail("unchanged", "%v is answered from other segment files and returned (%v,%d,%v) before the damage but (%v,%d,%v) after", cl, want.err, want.next, msgOffsets(want.msgs), got.err, got.next, msgOffsets(got.msgs))
			}
		}
	}
	if d.overwrite && len(d.desc)%3 == 0 {
		deleteThenReread(st, m, l, segs, d, calls, pristine)
	}
}

// deleteThenReread: a Delete of an undamaged offset stored in the damaged segment file either fails or
// succeeds, but afterwards still no read may return a message that differs from what was published (a
// rewrite must not launder damaged bytes under a fresh checksum).
func deleteThenReread(st *Stats, m *Model, l klevdb.Log, segs []SegInfo, d apiDamage, calls []apiCall, pristine []apiResult) {
	var victim int64 = -1
	for _, r := range segs[d.seg].Recs {
		if _, live := m.Find(r.Off); live && !d.damaged[r.Off] {
			victim = r.Off
			break
		}
	}
	if victim < 0 {
		return
	}
	del, _, err := l.Delete(map[int64]struct{}{victim: {}})
	st.Inc("delete_in_damaged_segment")
	if err != nil {
		st.Inc("delete_in_damaged_segment_failed")
	}
	gone := map[int64]bool{}
	for _, x := range del {
		if x.Offset != victim {
			cfail("safety", "Delete(%d) in a damaged segment reported offset %d", victim, x.Offset)
		}
		gone[x.Offset] = true
	}
	for ci, cl := range calls {
		got := cl.run(l)
		for _, g := range got.msgs {
			x, ok := m.Find(g.Offset)
			if !ok || !x.Eq(g) || gone[g.Offset] {
				cfail("safety", "after Delete(%d) in the damaged segment (result %v), %v returned %+v; published at that offset: %+v (live=%v, deleted now=%v)", victim, err, cl, FromMessage(g), x, ok, gone[g.Offset])
			}
		}
		// the overwritten record is still overwritten: a call whose answer would include it still has to fail - a
		// rewrite must not make the damage disappear together with the record (and what follows it)
		hit := false
		for _, g := range pristine[ci].msgs {
			if d.damaged[g.Offset] {
				hit = true
			}
		}
		if hit {
			st.Inc("mustfail_checks_after_delete")
			if got.err == nil {
				cfail("mustfail", "after Delete(%d) in the damaged segment (result %v), %v succeeded with %v although its undamaged answer %v includes an overwritten record (offsets %v)", victim, err, cl, msgOffsets(got.msgs), msgOffsets(pristine[ci].msgs), keysOf(d.damaged))
			}
		}
	}
}

func keysOf(m map[int64]bool) []int64 {
	var out []int64
	for k := range m {
		out = append(out, k)
	}
	return out
}

func TestC14(t *testing.T) {
	st := NewStats("C14")
	defer st.Write()
	var lastCase *DmgAPICase
	var lastViol *Violation
	defer func() {
		if t.Failed() && lastCase != nil {
			path := WriteReplay("C14", "apidamage", lastViol, lastCase)
			fmt.Printf("%v\nVIOLATION property=C14 replay=%s\n", lastViol, path)
		}
	}()
	rapid.Check(t, func(rt *rapid.T) {
		c := genDmgAPICase(rt)
		if v := protect(func() { runDmgAPICase(c, st) }); v != nil {
			lastCase, lastViol = c, v
			rt.Fatalf("%s", v.Error())
		}
		st.Inc("logs")
	})
}

func init() { registerReplay("apidamage", runDmgAPICase) }
